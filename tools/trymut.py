#!/venv/bin/python
"""Apply a one-off textual mutation (or a patch file) to /repo, optionally run the repo's own tests, run checks, revert.
usage: trymut.py [--tests] [--tier quick] --checks C12,C03 (--patch file | --file relpath --old 'text' --new 'text')"""
import argparse, subprocess, sys, os
ap = argparse.ArgumentParser()
ap.add_argument("--tests", action="store_true")
ap.add_argument("--tier", default="quick")
ap.add_argument("--checks", default="")
ap.add_argument("--patch")
ap.add_argument("--file")
ap.add_argument("--old")
ap.add_argument("--new")
ap.add_argument("--count", type=int, default=1)
a = ap.parse_args()
st = subprocess.run(["git", "-C", "/repo", "status", "--porcelain", "--untracked-files=no"], capture_output=True, text=True).stdout.strip()
if st:
    print("refusing: /repo has uncommitted changes:\n" + st); sys.exit(3)
try:
    if a.patch:
        r = subprocess.run(["git", "-C", "/repo", "apply", a.patch])
        if r.returncode: print("patch does not apply"); sys.exit(3)
    else:
        p = os.path.join("/repo", a.file)
        s = open(p).read()
        if s.count(a.old) != a.count:
            print(f"old text occurs {s.count(a.old)} times, expected {a.count}"); sys.exit(3)
        open(p, "w").write(s.replace(a.old, a.new))
    if a.tests:
        r = subprocess.run("cd /repo && /venv/bin/python -m pytest -q -p no:cacheprovider -x 2>&1 | tail -2", shell=True, capture_output=True, text=True)
        print("REPO TESTS:", r.stdout.strip().splitlines()[-1] if r.stdout.strip() else r.stderr[-200:])
    for c in [c for c in a.checks.split(",") if c]:
        r = subprocess.run(["/verif/check", c, "--tier", a.tier], capture_output=True, text=True, env=dict(os.environ, NSSMC_EVIDENCE_DIR="/verif/scratch/mut_evidence"))  # never clobber committed evidence with a mutated tree's
        lines = r.stdout.strip().splitlines()
        viol = [l for l in lines if l.startswith("VIOLATION")]
        cl = sorted(set(l.split()[0] for l in lines if l.strip().startswith("clause=")))
        print(f"{c}: rc={r.returncode} violations={len(viol)} clauses={cl}")
        herr = [l for l in lines if "HARNESS-ERROR" in l]
        for h in herr[:3]: print("   ", h)
        if r.returncode not in (0, 1): print("   stderr tail:", r.stderr[-400:])
        print("   ", lines[-1] if lines else "")
finally:
    subprocess.run(["git", "-C", "/repo", "checkout", "--", "."])
