#!/bin/bash
# usage: tools/run_all.sh [tier] [seed]   -> runs every registered check, prints one line per check
tier=${1:-quick}; seed=${2:-0}
cd /verif
for id in $(/venv/bin/python -c "import json;print(' '.join(c['property_id'] for c in json.load(open('MANIFEST.json'))['checks']))"); do
  s=$(date +%s.%N)
  out=$(VERIF_SEED=$seed ./check $id --tier $tier 2>&1); rc=$?
  e=$(date +%s.%N)
  printf "%s rc=%d %.1fs %s\n" $id $rc $(echo "$e - $s" | bc) "$(echo "$out" | grep -c '^VIOLATION') violations $(echo "$out" | grep -c 'KNOWN-FINDING') known $(echo "$out" | grep -c 'HARNESS-ERROR') harness-errors"
done
