#!/venv/bin/python
"""Re-run every filed seed (seeded/<id>/patch.diff) against its own property's check, C11 and any check that caught it
before; refresh meta.json 'matrix'. Uses scratch worktrees (NSSMC_SRC); /repo is not touched."""
import json, glob, os, subprocess, sys, time
only = sys.argv[1:]
for d in sorted(glob.glob('/verif/seeded/*')):
    sid = os.path.basename(d)
    if only and sid not in only: continue
    m = json.load(open(d + '/meta.json'))
    prev = set(m.get('what_i_ran', {}).get('caught_by', [])) | set(m.get('matrix', {}).get('caught_by', []))
    checks = sorted({m['property'], 'C11'} | prev | set(m.get('extra_checks', [])))
    cw = f"/tmp/wt/mx_{sid}"
    subprocess.run(f"git -C /repo worktree remove --force {cw}", shell=True, capture_output=True)
    assert subprocess.run(f"/verif/tools/mkwt.sh mx_{sid}", shell=True, capture_output=True).returncode == 0
    res = {}
    try:
        if subprocess.run(f"git -C {cw} apply {d}/patch.diff", shell=True, capture_output=True).returncode != 0:
            print(sid, "PATCH DOES NOT APPLY at current HEAD"); m.setdefault('matrix', {})['applies_at_head'] = False
            json.dump(m, open(d + '/meta.json', 'w'), indent=1); continue
        for c in checks:
            r = subprocess.run(["/verif/check", c, "--tier", "quick"], capture_output=True, text=True, env=dict(os.environ, NSSMC_SRC=f"{cw}/src", NSSMC_EVIDENCE_DIR=f"{cw}/_evidence"))
            lines = r.stdout.strip().splitlines()
            res[c] = {"rc": r.returncode, "clauses": sorted(set(l.split()[0].replace("clause=", "") for l in lines if l.strip().startswith("clause=")))}
    finally:
        subprocess.run(f"git -C /repo worktree remove --force {cw}", shell=True, capture_output=True)
    m['matrix'] = {"at_repo_head": subprocess.run("git -C /repo rev-parse --short HEAD", shell=True, capture_output=True, text=True).stdout.strip(), "applies_at_head": True, "results": res, "caught_by": sorted(c for c, v in res.items() if v['rc'] == 1)}
    json.dump(m, open(d + '/meta.json', 'w'), indent=1)
    print(sid, "caught_by", m['matrix']['caught_by'], "" if m['matrix']['caught_by'] else "  <<<<<< NOT CAUGHT", flush=True)
