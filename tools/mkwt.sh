#!/bin/bash
# usage: mkwt.sh <name>   -> creates scratch worktree /tmp/wt/<name> of /repo HEAD with the git-ignored build products copied in
set -e
n="$1"; d=/tmp/wt/$n
mkdir -p /tmp/wt
git -C /repo worktree add -q --detach "$d" HEAD
cp /repo/src/nuspacesim/simulation/eas_optical/zsteps*.so "$d/src/nuspacesim/simulation/eas_optical/"
cp /repo/src/nuspacesim/_version.py "$d/src/nuspacesim/" 2>/dev/null || true
echo "$d"
