#!/venv/bin/python
"""Verify a sub-agent's seeded change independently and file it under /verif/seeded/<id>/.
usage: keep_seed.py <srcdir with patch.diff demo.py meta.json> <seed_id> <property> <checks comma separated>"""
import json, os, shutil, subprocess, sys, time

src, sid, prop, checks = sys.argv[1], sys.argv[2], sys.argv[3], sys.argv[4].split(",")
wt = f"/tmp/wt/verify_{sid}"
env = dict(os.environ, PYTHONPATH=f"{wt}/src", PYTHONDONTWRITEBYTECODE="1")
def sh(cmd, **kw):
    return subprocess.run(cmd, shell=True, capture_output=True, text=True, **kw)
rec = {"verified_at_repo_head": sh("git -C /repo rev-parse --short HEAD").stdout.strip()}
sh(f"git -C /repo worktree remove --force {wt}")
base = os.environ.get("SEED_BASE")  # verify demo/tests at the commit the change was written against
if base:
    r = sh(f"git -C /repo worktree add -q --detach {wt} {base} && cp /repo/src/nuspacesim/simulation/eas_optical/zsteps*.so {wt}/src/nuspacesim/simulation/eas_optical/ && cp /repo/src/nuspacesim/_version.py {wt}/src/nuspacesim/")
    rec["verified_at_repo_head"] = base + " (the commit the change was written against)"
else:
    r = sh(f"/verif/tools/mkwt.sh verify_{sid}")
assert r.returncode == 0, r.stderr
try:
    demo = os.path.join(src, "demo.py")
    a = subprocess.run(["/venv/bin/python", demo], cwd=wt, env=env, capture_output=True, text=True, timeout=600)
    rec["demo_at_head"] = {"rc": a.returncode, "tail": a.stdout.strip().splitlines()[-1:] }
    pf = os.environ.get("SEED_PATCH_AT_BASE", "patch.diff")
    ap = sh(f"git -C {wt} apply {src}/{pf}")
    rec["patch_applies"] = ap.returncode == 0
    if ap.returncode != 0:
        rec["apply_error"] = ap.stderr[-300:]
    else:
        t = subprocess.run("/venv/bin/python -m pytest -q -p no:cacheprovider 2>&1 | tail -1", shell=True, cwd=wt, env=env, capture_output=True, text=True)
        rec["repo_tests_with_change"] = t.stdout.strip()
        b = subprocess.run(["/venv/bin/python", demo], cwd=wt, env=env, capture_output=True, text=True, timeout=600)
        rec["demo_with_change"] = {"rc": b.returncode, "tail": b.stdout.strip().splitlines()[-2:]}
finally:
    sh(f"git -C /repo worktree remove --force {wt}")
ok = rec.get("patch_applies") and rec["demo_at_head"]["rc"] == 0 and rec["demo_with_change"]["rc"] != 0 and "45 passed" in rec["repo_tests_with_change"]
rec["confirmed"] = bool(ok)
caught = {}
if ok:
    # run the checks against the change in a scratch worktree (NSSMC_SRC), so that /repo itself is never touched
    cw = f"/tmp/wt/chk_{sid}"
    sh(f"git -C /repo worktree remove --force {cw}")
    assert sh(f"/verif/tools/mkwt.sh chk_{sid}").returncode == 0
    try:
        assert sh(f"git -C {cw} apply {src}/patch.diff").returncode == 0
        for c in checks:
            t0 = time.time()
            r = subprocess.run(["/verif/check", c, "--tier", "quick"], capture_output=True, text=True, env=dict(os.environ, NSSMC_SRC=f"{cw}/src", NSSMC_EVIDENCE_DIR=f"{cw}/_evidence"))
            lines = r.stdout.strip().splitlines()
            cl = sorted(set(l.split()[0].replace("clause=", "") for l in lines if l.strip().startswith("clause=")))
            caught[c] = {"rc": r.returncode, "violations": sum(1 for l in lines if l.startswith("VIOLATION")), "clauses": cl, "wall_s": round(time.time() - t0, 1)}
    finally:
        sh(f"git -C /repo worktree remove --force {cw}")
rec["checks_run_against_change"] = caught
rec["caught_by"] = sorted(c for c, v in caught.items() if v["rc"] == 1)
dst = f"/verif/seeded/{sid}"
os.makedirs(dst, exist_ok=True)
shutil.copy(f"{src}/patch.diff", dst); shutil.copy(f"{src}/demo.py", dst)
meta = json.load(open(f"{src}/meta.json")) if os.path.exists(f"{src}/meta.json") else {}
meta.update({"property": prop, "seed_id": sid, "what_i_ran": rec})
json.dump(meta, open(f"{dst}/meta.json", "w"), indent=1)
print(sid, "confirmed" if ok else "NOT CONFIRMED", "caught_by", rec["caught_by"], {c: v["clauses"] for c, v in caught.items()})
if not ok: print(json.dumps(rec, indent=1)[:1500])
