#!/opt/veriftools/pyvenv/bin/python
import json, sys, glob, jsonschema
schema = json.load(open('/root/.vp/EVIDENCE.schema.json'))
bad = 0
for f in sorted(glob.glob('/verif/evidence/*.json')):
    try:
        jsonschema.validate(json.load(open(f)), schema)
    except Exception as e:
        bad += 1
        print("INVALID", f, str(e)[:300])
print("evidence files checked:", len(glob.glob('/verif/evidence/*.json')), "invalid:", bad)
sys.exit(1 if bad else 0)
