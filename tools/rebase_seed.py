#!/venv/bin/python
"""Re-base filed seed patches that no longer apply at /repo HEAD (after a fix: commit touched the same file):
git apply --3way in a scratch worktree; the old patch is kept as patch_original.diff, meta.json gets a note."""
import json, os, shutil, subprocess, sys
def sh(c): return subprocess.run(c, shell=True, capture_output=True, text=True)
head = sh("git -C /repo rev-parse --short HEAD").stdout.strip()
for sid in sys.argv[1:]:
    d = f"/verif/seeded/{sid}"
    wt = f"/tmp/wt/rb_{sid}"
    sh(f"git -C /repo worktree remove --force {wt}")
    assert sh(f"/verif/tools/mkwt.sh rb_{sid}").returncode == 0
    try:
        if sh(f"git -C {wt} apply --check {d}/patch.diff").returncode == 0:
            print(sid, "applies already"); continue
        r = sh(f"git -C {wt} apply --3way {d}/patch.diff")
        conflict = "<<<<<<<" in sh(f"git -C {wt} diff HEAD").stdout or r.returncode != 0
        if conflict:
            print(sid, "CONFLICT - manual rebase needed:", r.stderr.strip()[-200:]); continue
        new = sh(f"git -C {wt} diff HEAD").stdout
        if not os.path.exists(f"{d}/patch_original.diff"):
            shutil.copy(f"{d}/patch.diff", f"{d}/patch_original.diff")
        open(f"{d}/patch.diff", "w").write(new)
        m = json.load(open(f"{d}/meta.json"))
        m["rebased"] = f"patch.diff re-based onto /repo {head} with git apply --3way (a later fix: commit touched the same file); the patch as delivered is patch_original.diff"
        json.dump(m, open(f"{d}/meta.json", "w"), indent=1)
        print(sid, "rebased")
    finally:
        sh(f"git -C /repo worktree remove --force {wt}")
