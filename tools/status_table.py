#!/venv/bin/python
"""Regenerate the quick-tier figures table of DESIGN.md section 7.1 from evidence/*.json (in place)."""
import json

rows = []
for i in range(1, 21):
    pid = f"C{i:02d}"
    e = json.load(open(f"/verif/evidence/{pid}.json"))
    c = e["coverage"]
    rows.append(f"| {pid} | {e['level']} | {c['evaluations']:,} | {c['distinct_nontrivial']:,} | {c.get('states', '')} | {c.get('transitions', '')} | {e['wall_s']:.0f} |")
p = "/verif/DESIGN.md"
lines = open(p).read().split("\n")
hdr = next(i for i, l in enumerate(lines) if l.startswith("| property | level | evaluations |"))
start = hdr + 2
end = start
while end < len(lines) and lines[end].startswith("| C"):
    end += 1
lines[start:end] = rows
open(p, "w").write("\n".join(lines))
print(len(rows), "rows")
