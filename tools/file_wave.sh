#!/bin/bash
# usage: file_wave.sh <agent name e.g. c05n> <first seed number e.g. 25> [extra checks comma separated]
# verifies and files /tmp/seeded_out/<name>/{1,2} as seeded/Cxx-s<n>, Cxx-s<n+1>; removes the agent's worktree
name=$1; n=$2; extra=$3
prop=C${name:1:2}
for k in 1 2; do
  sid=$prop-s$((n+k-1))
  src=/tmp/seeded_out/$name/$k
  if [ ! -f $src/patch.diff ]; then echo "$sid: no patch in $src"; continue; fi
  checks=$prop; [ $prop != C11 ] && checks=$checks,C11; [ -n "$extra" ] && checks=$checks,$extra
  /verif/tools/keep_seed.py $src $sid $prop $checks 2>&1 | tail -3
done
git -C /repo worktree remove --force /tmp/wt/$name 2>/dev/null
