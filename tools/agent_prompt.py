#!/venv/bin/python
"""print the sub-agent prompt for one property and one worktree name (only the property's text is given)"""
import json, sys
pid, name = sys.argv[1], sys.argv[2]
n = int(sys.argv[3]) if len(sys.argv) > 3 else 2
# optional 4th argument "interaction": a generic steer (not derived from anything in /verif) towards less obvious sites
steer = ""
if len(sys.argv) > 4 and sys.argv[4] == "environment":
    steer = """
For this round: at least one of your changes must depend on PROCESS-LEVEL or ENVIRONMENT state rather than on the arguments of a single call - module-level or class-level state shared by all instances, import order, numpy / astropy / dask global settings (floating-point error state, unit equivalencies, time or IERS settings, the scheduler or number of workers in use), environment variables, the current working directory, or files written earlier in the same process. And at least one must be triggered by a DEGENERATE SIZE OR VALUE that ordinary runs do not contain: an empty batch, a batch of exactly one event, a batch that crosses an internal buffer or partition size, repeated identical events, a value exactly on a table node / threshold / layer boundary, a signed zero, a subnormal, or the largest / smallest value the configuration allows.
"""
elif len(sys.argv) > 4 and sys.argv[4] == "conventions":
    steer = """
For this round: at least one of your changes must be a slip in a CONVENTION or a SILENT FALLBACK rather than in the logic a reader would check first - degrees versus radians, km versus m, log10 versus natural log, GeV versus 100 PeV, a sign or orientation (longitude wrap, azimuth origin, which of two angles is the complement), an inclusive versus exclusive bound, an off-by-one in a table or grid index, a default argument or an `except` / `if missing` path that quietly substitutes a value. It must still be SPECIFIC: visible only for some inputs, configurations or histories (a convention slip that is wrong everywhere is not acceptable). And at least one of your changes must be made in a file that is NOT among the files the property is anchored in (a utility, the constants, a decorator, a data-loading or plotting helper, the configuration layer, the command line, compute.py) yet breaks the property through the way the anchored code uses it.
"""
elif len(sys.argv) > 4 and sys.argv[4] == "entrypoints":
    steer = """
For this round: at least one of your changes must be visible only through an ALTERNATIVE ENTRY POINT or CALL FORM of the same functionality - a Python scalar versus a 0-d or n-d array argument, keyword versus positional arguments, explicitly supplied versus internally drawn random numbers, the command line (`nuspacesim run`, `create-config`, `show-plot` and their options) versus the Python API, `config_from_toml` / `config_from_fits` versus the constructors, a value read back from a results file versus the value in memory - while the most common way of calling the code stays correct. And at least one must be a NUMERICAL-PRECISION change: a float32 / float64 choice, a re-ordered or re-associated sum or product, a guard (clip, where, isclose, a tolerance constant, an epsilon) whose threshold is slightly off, an algebraically equivalent formula that cancels - so that results move by far more than rounding only in an ill-conditioned corner of the quantified domain and by nothing visible elsewhere.
"""
elif len(sys.argv) > 4 and sys.argv[4] == "apiswap":
    steer = """
For this round: at least one of your changes must be a LIBRARY-API SWAP whose semantics differ subtly from the original - numpy / scipy / astropy / pydantic / h5py calls that look interchangeable but are not: boolean-mask assignment versus np.putmask / np.place / np.where / np.take / np.choose, searchsorted side, argsort / sort kind and stability, np.clip versus np.minimum / np.maximum with NaN, np.interp versus interp1d / RegularGridInterpolator bounds handling, np.full versus full_like / zeros_like (dtype, shape), views versus copies (ravel / flatten / reshape / slicing / np.asarray / np.array), in-place versus out-of-place operators, np.arange with float steps versus linspace, builtin min / max / sum / round versus the numpy ones, Quantity / Time arithmetic versus plain floats, pydantic validators (before / after, field versus model), h5py / FITS open modes. It must still be SPECIFIC (visible only for some inputs, shapes, dtypes, configurations or histories). And at least one of your changes must alter WHAT IS ACCEPTED OR REJECTED: an input, configuration value, file or call that must be refused is now quietly accepted (or repaired), or one that must work is now refused - again only in a corner, not for ordinary use.
"""
elif len(sys.argv) > 4 and sys.argv[4] == "defaults":
    steer = """
For this round: at least one of your changes must concern a DEFAULT or an OMITTED / OPTIONAL ARGUMENT - the default value of a function parameter or configuration field, what happens when an optional argument is left out or passed as None (random numbers, cloud callback, store / plot hooks, decay lengths, output file, table version, month, thresholds), a mutable default, a keyword that is silently ignored or silently defaulted, `*args / **kwargs` that swallow or forward something they should not - visible only when the argument is omitted (or only when it is given), not in the most common call. And at least one must be a pair of COOPERATING EDITS IN TWO DIFFERENT FILES, each of which is harmless (bit-identical behaviour) when applied alone and which break the property only together, in a specific situation.
"""
elif len(sys.argv) > 4 and sys.argv[4] == "boundary":
    steer = """
For this round: at least one of your changes must show ONLY AT AN EXACT BOUNDARY OR DEGENERATE VALUE of something the property quantifies over - a parameter exactly 0 (or exactly at the minimum / maximum of its legal range), two values exactly equal (ties, a band of zero or one-ulp width, coincident points), a batch of exactly one event or exactly one partition, an event exactly on a table node / grid edge / range limit, a value with many significant digits, a negative zero, an exactly representable versus a not exactly representable number - and be bit-identical to the original everywhere else. And at least one must concern the LIFE CYCLE OF AN OBJECT: a stage / geometry / configuration / table / grid object that is copied, deep-copied, pickled and restored, re-used after a call that raised, re-configured after construction, sliced or derived from another object, or kept alive while another one is created - correct for a freshly constructed object used once.
"""
elif len(sys.argv) > 4 and sys.argv[4] == "ordering":
    steer = """
For this round: at least one of your changes must depend on ORDER or COMPOSITION rather than on the value of a single event - the order of the events inside a batch (sorted versus unsorted, a permutation, duplicates next to each other, the first or the last element, an element that is the batch minimum or maximum), which OTHER events share the batch (a reduction such as min / max / mean / any / all / a shape or dtype taken from the whole array that leaks into per-event results), the order of two calls, the order of keys / columns / configuration fields, or the order in which partitions or stages complete. The result for a permuted or split input must no longer be the permuted or concatenated result, in a specific situation only. And at least one must sit in a RARELY TAKEN BRANCH: code that runs only when a mask selects nothing or everything, when a loop runs zero times or exactly once, when an exception is caught and handled, when a fallback / retry / `else` arm is taken, when an optional file, keyword or header entry is absent - the common path stays bit-identical.
"""
elif len(sys.argv) > 4 and sys.argv[4] == "crosscut":
    steer = """
For this round: at least one of your changes must be made in SHARED INFRASTRUCTURE that many parts of the simulator use - src/nuspacesim/utils/ (decorators, interpolation, grids, unit helpers, the cli option parsing), src/nuspacesim/constants.py, src/nuspacesim/types.py or results_table.py, config.py validators / serializers, compute.py wiring, the data-file loaders - so that it breaks the stated property through the way the anchored code uses that infrastructure, for a specific input or configuration only, while every other documented use of the shared code keeps working. And at least one must be a change that is correct for the DEFAULT configuration (`create-config` output, 525 km detector, optical channel, diffuse mode, mono-energetic 10^8 GeV... whatever the defaults are) and for the configurations the test-suite uses, but wrong for another LEGAL configuration value: a different detector altitude, another month, a non-default table version, a target-mode source, a radio band, a cloud model, a power-law or file-based spectrum, a different number of antennas, thresholds, or output options.
"""
elif len(sys.argv) > 4 and sys.argv[4] == "aftermath":
    steer = """
For this round: at least one of your changes must show only in the AFTERMATH OF A FAILED, REJECTED OR INTERRUPTED CALL - an exception raised part-way (an invalid input that is correctly refused, a failing callback, a KeyboardInterrupt, a missing file) leaves an object, a module-level structure, a configuration, a numpy / dask / astropy setting or a file in a state that makes the NEXT, perfectly valid call or run give a wrong answer - while any sequence of successful calls stays bit-identical to the original. And at least one must be an ALIASING change: something that used to be a fresh array / dict / object becomes a view of, or the very same object as, an input, an internal table, a default, a previous result or another stage's column (np.asarray instead of np.array, a returned slice, `out=`, an in-place operator, a shared default, a reference kept instead of a copy), so that the damage appears only when the caller or a LATER stage re-uses, mutates or compares that other object - the first result returned is still right.
"""
elif len(sys.argv) > 4 and sys.argv[4] == "interaction":
    steer = """
For this round: at least one of your changes must live in an INTERACTION rather than in a single formula - between two calls on one object, between two objects or two stages of the pipeline, between the library and its environment (files, the process, configuration objects that outlive a call, the dtype / memory layout / length of the arrays passed in), or between two edits that are each harmless alone. And at least one must sit at a code site that is NOT the most obvious function for this property: a helper, decorator or utility it depends on, the wiring in compute.py or the command line, a constructor, or a data-handling routine.
"""
p = [json.loads(l) for l in open('/verif/properties.jsonl') if l.strip()]
p = [x for x in p if x['id'] == pid][0]
wt = f"/tmp/wt/{name}"
out = f"/tmp/seeded_out/{name}"
print(f"""You are helping test a verification harness by producing realistic *property-breaking* code changes (seeded defects) for the Python project nuSpaceSim (a NASA Monte Carlo simulator for upward-going tau-neutrino air showers).

Your scratch git worktree of the project is at {wt} (a detached worktree at the project's current HEAD, with the compiled extension already copied in). Work ONLY inside {wt} and write your deliverables to {out}/ (create it). Do NOT read, list or touch /verif or /repo, and do not look for any verification harness — your changes must be independent of it. There is no network.

How to run things in the worktree:
  cd {wt} && PYTHONPATH={wt}/src /venv/bin/python -m pytest -q -p no:cacheprovider        # the project's own suite: 45 tests, ~10 s, all pass at HEAD
  cd {wt} && PYTHONPATH={wt}/src /venv/bin/python your_script.py                             # imports nuspacesim from the worktree

The property (this is all you get about what is being verified):

  id: {p['id']} — {p['title']}
  statement: {p['statement']}
  quantified over: {p['quantifier']['text']}
  code it is anchored in: {', '.join(p['anchors']['files'])}
  mechanisms meant to make it hold: {'; '.join(m['name'] + ' (' + m.get('where','') + ')' for m in p['anchors']['mechanism'])}

Your task: produce {n} DIFFERENT, independent changes to the project source (under src/nuspacesim/, not tests) such that each one
  (a) makes the property above FALSE for some inputs/configurations/histories/schedules it quantifies over,
  (b) still imports/compiles, and the project's own 45-test suite still passes completely with the change applied (run it to be sure),
  (c) looks like a plausible mistake or 'optimisation/refactor' a developer could make (small: a few lines), and
  (d) needs something SPECIFIC to manifest — an unusual or boundary input, a particular configuration value, a multi-step call sequence/history, a particular batch composition or size, a particular interleaving/ordering, a fault at a particular point, or two cooperating edits that each look fine alone — NOT something that ordinary default use would expose at once. Prefer subtle changes over blatant ones. Do not merely delete a whole feature, and do not change only comments/docstrings.
Make the {n} changes different in kind (e.g. different clause of the property, different code site).
{steer}
If the property statement describes behaviour the current code already violates for some input, do not rely on that existing failure: your change must introduce a NEW failure that is absent at HEAD.

For each change k = 1..{n} deliver in {out}/k/:
  - patch.diff  : `git diff` of the change against HEAD (must apply with `git apply` to a clean checkout of HEAD; one change per patch, the patches are independent alternatives, not cumulative)
  - demo.py     : a small standalone program that exits 0 and prints PASS on unmodified HEAD, and exits 1 and prints FAIL (with the offending values) when the change is applied. It must use only the public behaviour described by the property (not inspect source text), be deterministic (seed or supply any random numbers), run in under 2 minutes, and be run as: PYTHONPATH=<tree>/src /venv/bin/python demo.py
  - meta.json   : {{"property": "{p['id']}", "summary": "...what was changed...", "clause_broken": "...which part of the statement...", "needs_to_manifest": "...the specific input/config/sequence/schedule needed...", "tests_pass_with_change": true, "demo_fails_with_change": true, "demo_passes_at_head": true}}

Procedure for each change: make the edit in the worktree; run the full test suite (must be 45 passed); run demo.py (must FAIL); save `git diff > patch.diff`; then `git checkout -- .` to restore HEAD; run demo.py again (must PASS). Leave the worktree clean (git status empty apart from untracked scratch files you should delete) when you are done. Do not commit anything. Finish by printing a short summary of the {n} changes and confirming the three checks for each.""")
