#!/venv/bin/python
"""Regenerate /verif/MANIFEST.json from nssmc/registry.py and validate it against the schema."""
import json, sys, subprocess
from pathlib import Path
ROOT = Path(__file__).resolve().parent.parent
sys.path.insert(0, str(ROOT))
from nssmc.registry import CHECKS, NOT_APPLICABLE, HOOK_COMMITS

props = [json.loads(l)["id"] for l in (ROOT / "properties.jsonl").read_text().splitlines() if l.strip()]
checks = []
for pid in props:
    if pid not in CHECKS:
        continue
    c = CHECKS[pid]
    checks.append({
        "property_id": pid,
        "quick_cmd": f"./check {pid} --tier quick",
        "thorough_cmd": f"./check {pid} --tier thorough",
        "evidence_file": f"/verif/evidence/{pid}.json",
        "replay_cmd_template": f"./check {pid} --replay {{path}}",
        "engine": c["engine"],
        "level_claimed": {"category": c["level"], "text": c["text"], "design_ref": c["design_ref"]},
        "level_note": c["note"],
        "technique": c["technique"],
    })
na = [{"property_id": p, "reason": NOT_APPLICABLE.get(p, "check not built yet in this session; see DESIGN.md")} for p in props if p not in CHECKS]
m = {
    "version": 1,
    "setup_cmd": "./setup.sh",
    "hooks": {
        "guard": "NUSPACESIM_VERIF_DTYPE",
        "enable": "checks export NUSPACESIM_VERIF_DTYPE=float64 only around the double-precision evaluation of the optical kernel (C06/C09); /repo is an editable install, so nothing is rebuilt except zsteps.cpp, which the checks compile from the working tree with g++ against a pybind11 shim",
        "baseline_off_cmd": "cd /repo && env -u NUSPACESIM_VERIF_DTYPE /venv/bin/python -m pytest -ra -q -p no:cacheprovider --timeout=900 --continue-on-collection-errors",
        "source_commits": HOOK_COMMITS,
        "add_only": True,
    },
    "engines": [
        {"name": "E1-lattice", "path": "nssmc/checks", "kind_free_text": "stateless exhaustive enumeration of levelled input/configuration alphabets through the production entry points, with reference-model oracles", "serves_properties": [p for p in props if p in CHECKS and "E1" in CHECKS[p]["engine"]]},
        {"name": "E2-history", "path": "nssmc/history.py", "kind_free_text": "explicit-state BFS over call histories on one live object, state = hash of the object's mutable arrays", "serves_properties": [p for p in props if p in CHECKS and "E2" in CHECKS[p]["engine"]]},
        {"name": "E3-schedule", "path": "nssmc/schedule.py", "kind_free_text": "stateless DFS over completion orders of the real dask scheduler loop (controlled executor) and over preemption-bounded interleavings of two real kernel invocations (baton scheduler)", "serves_properties": [p for p in props if p in CHECKS and "E3" in CHECKS[p]["engine"]]},
        {"name": "E4-crash", "path": "nssmc/faults.py", "kind_free_text": "enumeration of every write boundary as a real process death and every stage as the site of one injected exception", "serves_properties": [p for p in props if p in CHECKS and "E4" in CHECKS[p]["engine"]]},
    ],
    "checks": checks,
    "not_applicable": na,
    "notes": "All checks are bounded exhaustive explorations of the implementation itself (no sampling decides anything). known_findings.json lists recorded defects and fixed: entries.",
}
(ROOT / "MANIFEST.json").write_text(json.dumps(m, indent=1) + "\n")
r = subprocess.run(["/opt/veriftools/pyvenv/bin/python", "-c", "import json,jsonschema,sys; jsonschema.validate(json.load(open(sys.argv[1])), json.load(open('/root/.vp/MANIFEST.schema.json'))); print('MANIFEST valid:', len(json.load(open(sys.argv[1]))['checks']), 'checks')", str(ROOT / "MANIFEST.json")])
sys.exit(r.returncode)
