#!/venv/bin/python
"""Regenerate the seeded-changes table of DESIGN.md section 7.5 from seeded/*/meta.json (in place: the block of lines that
start with '| C' after the table header is replaced)."""
import glob, json, os, re

def natural(d):
    m = re.match(r".*/C(\d+)-s(\d+)$", d)
    return int(m.group(1)), int(m.group(2))

rows = []
for d in sorted(glob.glob("/verif/seeded/C*-s*"), key=natural):
    m = json.load(open(d + "/meta.json"))
    sid = os.path.basename(d)
    ran = m.get("what_i_ran", {})
    mx = m.get("matrix", {})
    res = mx.get("results") or {c: {"rc": v["rc"], "clauses": v["clauses"]} for c, v in ran.get("checks_run_against_change", {}).items()}
    caught = sorted(set(mx.get("caught_by", [])) | (set(ran.get("caught_by", [])) if not mx else set()))
    clauses = "; ".join(f"{c}: {', '.join(res[c]['clauses'])}"[:170] for c in caught if c in res)
    cell = lambda s: str(s).replace("|", "/").replace("\n", " ")[:150]
    note = m.get("not_caught_note") or ("deliberately" in str(m.get("note", "")))
    rows.append(f"| {sid} | {m['property']} | {cell(m.get('summary', ''))} | {cell(m.get('needs_to_manifest', ''))[:140]} | {', '.join(caught) if caught else ('**none** (see note)' if note else 'NOT CAUGHT')} | {clauses} |")

p = "/verif/DESIGN.md"
lines = open(p).read().split("\n")
hdr = next(i for i, l in enumerate(lines) if l.startswith("| seed | property | change |"))
start = hdr + 2
end = start
while end < len(lines) and lines[end].startswith("| C"):
    end += 1
lines[start:end] = rows
open(p, "w").write("\n".join(lines))
print(len(rows), "rows;", sum("NOT CAUGHT" in r or "see note" in r for r in rows), "not caught")
