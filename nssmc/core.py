"""Shared run context for all checks: counting, violations, known findings, replay files, evidence.

A check module (nssmc/checks/cXX.py) exposes

    PID, LEVEL, RULE, ASSUMPTIONS
    run(ctx)                 enumerate the bounded space, call ctx.tick / ctx.violation
    replay(case) -> list     re-execute ONE case through the production entry point and return
                             [(clause, expected, observed), ...] for the clauses it violates

ctx.violation() only records a *candidate*.  At the end of the run every candidate that is not
matched by a known finding is re-executed twice through replay(); it is printed as a VIOLATION only
when both re-executions reproduce the same clause.  Disagreement is a harness error (exit 2).
"""

from __future__ import annotations

import hashlib
import json
import math
import os
import sys
import time
from pathlib import Path

import numpy as np

ROOT = Path(__file__).resolve().parent.parent
EVIDENCE_DIR = Path(os.environ["NSSMC_EVIDENCE_DIR"]) if os.environ.get("NSSMC_EVIDENCE_DIR") else ROOT / "evidence"  # (override only used when checks are pointed at a scratch worktree)
REPLAY_DIR = ROOT / "replays"
FINDINGS_FILE = ROOT / "known_findings.json"

MAX_STORED_PER_CLAUSE = 6  # replay files written per clause (all violations are counted)


def jsonable(x):
    """Convert numpy / float values to something JSON can carry loss-free (floats as hex strings)."""
    if isinstance(x, dict):
        return {str(k): jsonable(v) for k, v in x.items()}
    if isinstance(x, (list, tuple)):
        return [jsonable(v) for v in x]
    if isinstance(x, np.ndarray):
        return jsonable(x.tolist())
    if isinstance(x, (np.bool_, bool)):
        return bool(x)
    if isinstance(x, (np.integer,)):
        return int(x)
    if isinstance(x, (np.floating, float)):
        return {"f": float(x).hex()} if math.isfinite(float(x)) else {"f": repr(float(x))}
    if isinstance(x, bytes):
        return {"b": x.hex()}
    if x is None or isinstance(x, (int, str)):
        return x
    return repr(x)


def readable(x):
    """like jsonable but floats stay plain numbers (for the human-readable samples in evidence files)."""
    if isinstance(x, dict):
        return {str(k): readable(v) for k, v in x.items()}
    if isinstance(x, (list, tuple)):
        return [readable(v) for v in x]
    if isinstance(x, np.ndarray):
        return readable(x.tolist())
    if isinstance(x, (np.bool_, bool)):
        return bool(x)
    if isinstance(x, (np.integer,)):
        return int(x)
    if isinstance(x, (np.floating, float)):
        return float(x) if math.isfinite(float(x)) else repr(float(x))
    if x is None or isinstance(x, (int, str)):
        return x
    return repr(x)


def unjson(x):
    """Inverse of jsonable for the float / bytes wrappers."""
    if isinstance(x, dict):
        if set(x.keys()) == {"f"}:
            s = x["f"]
            return float.fromhex(s) if "x" in s else float(s)
        if set(x.keys()) == {"b"}:
            return bytes.fromhex(x["b"])
        return {k: unjson(v) for k, v in x.items()}
    if isinstance(x, list):
        return [unjson(v) for v in x]
    return x


def _cond(val, cond):
    if isinstance(cond, dict) and not ({"f"} == set(cond.keys())):
        for op, ref in cond.items():
            ref = unjson(ref)
            try:
                if op == "eq" and not (val == ref):
                    return False
                if op == "ne" and not (val != ref):
                    return False
                if op == "gt" and not (val > ref):
                    return False
                if op == "ge" and not (val >= ref):
                    return False
                if op == "lt" and not (val < ref):
                    return False
                if op == "le" and not (val <= ref):
                    return False
                if op == "in" and val not in ref:
                    return False
            except TypeError:
                return False
        return True
    return val == unjson(cond)


def raised_in_production(tb_text):
    """does a traceback (including a remote traceback forwarded from a worker) pass through nuspacesim source?"""
    import re

    return bool(re.search(r'File "[^"]*/nuspacesim/[^"]*\.py"', tb_text))


def fresh_process_candidates(pid, tier, seed):
    """clauses of the unlisted candidates an exploration raises in an interpreter of its own (None if it could not run)"""
    import subprocess
    import sys

    env = dict(os.environ, VERIF_SEED=str(seed))
    r = subprocess.run([sys.executable, "-m", "nssmc", pid, "--tier", tier, "--candidates-only"], capture_output=True, text=True, env=env, cwd=str(ROOT))
    for line in r.stdout.splitlines():
        if line.startswith("CANDIDATES:"):
            return json.loads(line[11:])
    return None


def replay_explorer(module, case):
    """generic replay for an exploration that was aborted by a production exception: run the explorer again"""
    import traceback

    ctx = Ctx(module.PID, case.get("tier", "quick"), int(case.get("seed", 0)), module)
    out = []
    try:
        module.run(ctx)
    except Exception as ex:
        if raised_in_production(traceback.format_exc()):
            out.append(("production_code_raised_during_exploration", "no exception from production code", f"{type(ex).__name__}: {str(ex)[:160]}"))
    # the candidates the whole exploration raises again (known findings excluded): used for violations that only show in
    # the context of the exploration's earlier calls (state kept by production code across cases)
    for clause, lst in ctx.cands.items():
        for c_, exp, obs in lst:
            if ctx.findings.match(module.PID, clause, c_) is None:
                out.append((clause, exp, obs))
                break
    return out


class Findings:
    def __init__(self):
        self.entries = []
        self.fixed = []
        if FINDINGS_FILE.exists():
            d = json.loads(FINDINGS_FILE.read_text())
            self.entries = d.get("findings", [])
            self.fixed = d.get("fixed", [])

    def match(self, pid, clause, case):
        for e in self.entries:
            if e["property"] != pid or e["clause"] != clause:
                continue
            ok = True
            for k, cond in e.get("where", {}).items():
                if k not in case or not _cond(case[k], cond):
                    ok = False
                    break
            if ok:
                return e
        return None


class Ctx:
    def __init__(self, pid, tier, seed, module):
        self.pid = pid
        self.tier = tier
        self.seed = seed
        self.module = module
        self.level = module.LEVEL
        self.t0 = time.time()
        self.evals = 0
        self.sigs = set()
        self.samples = []
        self.cov = {}
        self.notes = []
        self.cands = {}  # clause -> list of (case, expected, observed)
        self.alts = {}
        self.cand_count = {}
        self.findings = Findings()
        self.rng = np.random.default_rng(seed)
        self.caps_hit = []
        self.exhaustive = True
        self.states = 0
        self.transitions = 0
        self.traces = 0

    # ---- counting -------------------------------------------------------------------------
    def tick(self, n=1, sig=None):
        self.evals += int(n)
        if sig is not None:
            self.sigs.add(sig)

    def add_sigs(self, it):
        for s in it:
            self.sigs.add(s)

    def add_sig_rows(self, prefix, *cols):
        """Vectorised branch signatures: unique rows of the given boolean/int columns."""
        if len(cols) == 0:
            return
        a = np.stack([np.asarray(c).astype(np.int64).ravel() for c in cols], axis=1)
        for row in np.unique(a, axis=0):
            self.sigs.add((prefix, *map(int, row)))

    def sample(self, case, every=None):
        if len(self.samples) < 8:
            self.samples.append(readable(case))

    def note(self, s):
        self.notes.append(s)

    def cap(self, s):
        self.caps_hit.append(s)
        self.exhaustive = False

    # ---- violations -----------------------------------------------------------------------
    def violation(self, clause, case, expected=None, observed=None, alt_case=None):
        """alt_case: a larger-context version of the case (e.g. the event together with a batch neighbour), tried when
        the minimal case does not reproduce on its own because the violation depends on batch composition."""
        self.cand_count[clause] = self.cand_count.get(clause, 0) + 1
        lst = self.cands.setdefault(clause, [])
        if len(lst) < 400:
            lst.append((case, expected, observed))
            if alt_case is not None:
                self.alts[id(case)] = alt_case

    # ---- finish ---------------------------------------------------------------------------
    def finish(self):
        known_hit = {}
        unlisted = []
        for clause, lst in self.cands.items():
            for case, exp, obs in lst:
                e = self.findings.match(self.pid, clause, case)
                if e is not None:
                    known_hit.setdefault(e["id"], e)
                else:
                    unlisted.append((clause, case, exp, obs))
        reported = []
        harness_errors = []
        per_clause = {}
        self.context_missing = {}
        for clause, case, exp, obs in unlisted:
            if per_clause.get(clause, 0) >= MAX_STORED_PER_CLAUSE:
                continue
            jcase = jsonable(case)
            if isinstance(case, dict) and case.get("kind") == "__explorer__":
                r1 = replay_explorer(self.module, case)
                if clause in {c for c, _, _ in r1}:
                    per_clause[clause] = 1
                    d = REPLAY_DIR / self.pid
                    d.mkdir(parents=True, exist_ok=True)
                    p = d / "explorer_aborted.json"
                    p.write_text(json.dumps({"property": self.pid, "clause": clause, "case": jcase, "expected": jsonable(exp), "observed": jsonable(obs), "tier": self.tier, "seed": self.seed}, indent=1))
                    reported.append((clause, p, exp, obs))
                else:
                    harness_errors.append("explorer aborted by an exception that did not recur")
                continue
            try:
                r1 = self.module.replay(unjson(json.loads(json.dumps(jcase))))
                if clause not in {c for c, _, _ in r1} and id(case) in self.alts:
                    jcase = jsonable(self.alts[id(case)])
                    r1 = self.module.replay(unjson(json.loads(json.dumps(jcase))))
                r2 = self.module.replay(unjson(json.loads(json.dumps(jcase))))
            except Exception as ex:  # the replay itself failed
                harness_errors.append(f"replay of clause {clause} raised {type(ex).__name__}: {ex}")
                continue
            c1 = sorted({c for c, _, _ in r1})
            c2 = sorted({c for c, _, _ in r2})
            if c1 != c2:
                harness_errors.append(f"non-deterministic replay for clause {clause}: {c1} vs {c2}")
                continue
            if clause not in c1:
                harness_errors.append(
                    f"candidate for clause {clause} did not reproduce in single-case replay (got {c1})"
                )
                self.context_missing.setdefault(clause, (exp, obs))
                continue
            per_clause[clause] = per_clause.get(clause, 0) + 1
            rec = {
                "property": self.pid,
                "clause": clause,
                "case": jcase,
                "expected": jsonable(exp),
                "observed": jsonable(obs),
                "tier": self.tier,
                "seed": self.seed,
            }
            digest = hashlib.sha256(json.dumps([clause, jcase], sort_keys=True).encode()).hexdigest()[:16]
            d = REPLAY_DIR / self.pid
            d.mkdir(parents=True, exist_ok=True)
            p = d / f"{digest}.json"
            p.write_text(json.dumps(rec, indent=1, sort_keys=True))
            reported.append((clause, p, exp, obs))

        if not reported and self.context_missing:
            # candidates that no single-case replay reproduces: the violation may need the state production code kept from
            # the exploration's EARLIER cases. The replayable unit is then the whole exploration: run it twice more; a
            # clause that both re-runs raise again (on cases that are not known findings) is a violation.
            ecase = {"kind": "__explorer__", "tier": self.tier, "seed": self.seed}
            again = [{c for c, _, _ in replay_explorer(self.module, ecase)} for _ in range(2)]
            if not all(all(clause in a for a in again) for clause in self.context_missing):
                # production code may have left THIS process in a state in which the violation no longer shows (a
                # process-wide table corrupted a little more by every call, say): repeat the exploration in two FRESH
                # interpreters and take the clauses both of them raise
                fresh = [fresh_process_candidates(self.pid, self.tier, self.seed) for _ in range(2)]
                if all(f is not None for f in fresh):
                    ecase = {"kind": "__explorer_fresh__", "tier": self.tier, "seed": self.seed}
                    again = [set(f) for f in fresh]
            for clause, (exp, obs) in self.context_missing.items():
                if all(clause in a for a in again):
                    d = REPLAY_DIR / self.pid
                    d.mkdir(parents=True, exist_ok=True)
                    p = d / f"explorer_context_{clause}.json"
                    p.write_text(json.dumps({"property": self.pid, "clause": clause, "case": ecase, "expected": jsonable(exp), "observed": jsonable(obs), "tier": self.tier, "seed": self.seed, "note": "reproduces only within the whole exploration (depends on earlier calls in the same process)"}, indent=1))
                    reported.append((clause, p, exp, obs))
                    harness_errors = [h for h in harness_errors if f"clause {clause} did not reproduce" not in h]
        for e in known_hit.values():
            print(f"KNOWN-FINDING: property={self.pid} {e['id']}: {e['what']}")
        for clause, p, exp, obs in reported:
            print(f"VIOLATION property={self.pid} replay={p}")
            print(f"  clause={clause} expected={_short(exp)} observed={_short(obs)}")
        for h in harness_errors:
            print(f"HARNESS-ERROR property={self.pid} {h}")
        self.write_evidence(n_viol=len(reported), known=sorted(known_hit))
        total_unlisted = sum(1 for _ in unlisted)
        print(
            f"[{self.pid}] tier={self.tier} seed={self.seed} evaluations={self.evals} "
            f"distinct={len(self.sigs)} states={self.states} transitions={self.transitions} "
            f"candidates={sum(self.cand_count.values())} unlisted={total_unlisted} "
            f"violations={len(reported)} wall={time.time() - self.t0:.1f}s exhaustive={self.exhaustive}"
        )
        if reported:
            return 1
        if harness_errors:
            return 2
        if self.evals == 0 or len(self.sigs) < 2:
            print(f"HARNESS-ERROR property={self.pid} vacuous exploration")
            return 2
        return 0

    def write_evidence(self, n_viol, known):
        cov = {
            "evaluations": int(self.evals),
            "distinct_nontrivial": int(len(self.sigs)),
            "rule": self.module.RULE,
            "samples": self.samples if self.samples else [{"note": "no samples recorded"}],
            "exhaustive": bool(self.exhaustive),
            "caps_hit": self.caps_hit,
            "candidate_counts_by_clause": {k: int(v) for k, v in self.cand_count.items()},
            "known_findings_observed": known,
            "notes": self.notes,
        }
        if self.level == "model_checking" or self.states:
            cov["states"] = int(max(self.states, 1))
            cov["transitions"] = int(max(self.transitions, 1))
            cov["traces_validated_against_impl"] = int(self.traces)
        cov.update(readable(self.cov))
        ev = {
            "property_id": self.pid,
            "tier": self.tier,
            "seed": int(self.seed),
            "level": self.level,
            "coverage": cov,
            "assumptions": list(self.module.ASSUMPTIONS),
            "wall_s": round(time.time() - self.t0, 3),
            "violations": int(n_viol),
        }
        EVIDENCE_DIR.mkdir(parents=True, exist_ok=True)
        (EVIDENCE_DIR / f"{self.pid}.json").write_text(json.dumps(ev, indent=1))


def _short(x, n=200):
    s = repr(x)
    return s if len(s) <= n else s[: n - 3] + "..."


def run_replay(module, path):
    rec = json.loads(Path(path).read_text())
    case = unjson(rec["case"])
    if isinstance(case, dict) and case.get("kind") == "__explorer_fresh__":
        got = fresh_process_candidates(module.PID, case.get("tier", "quick"), int(case.get("seed", 0))) or []
        res = [(c, rec.get("expected"), rec.get("observed")) for c in got if c == rec.get("clause")]
    elif isinstance(case, dict) and case.get("kind") == "__explorer__":
        res = replay_explorer(module, case)
    else:
        res = module.replay(case)
    clauses = sorted({c for c, _, _ in res})
    if res:
        for c, e, o in res:
            print(f"REPRODUCED property={module.PID} clause={c} expected={_short(e)} observed={_short(o)}")
        print(f"VIOLATION property={module.PID} replay={path}")
        return 1
    print(f"replay of {path}: no violation (clauses violated: {clauses})")
    return 0
