"""Owning nondeterminism: RNG stub, frozen clock, null progress bar."""

from __future__ import annotations

import contextlib
import datetime as _dt

import numpy as np


class RngStub:
    """Replaces numpy's legacy global draws for the duration of a `with` block.

    Every call to np.random.uniform / rand / random / random_sample returns
    low + (high - low) * t  (numpy's own arithmetic) where t comes from the harness:
      * `feeds`: list of arrays consumed one per call (call index order), each cycled/truncated to size; or
      * `fn(call_index, size) -> t array`.
    All calls are recorded in .calls as (name, low, high, size).
    """

    def __init__(self, feeds=None, fn=None, default=0.5):
        self.feeds = list(feeds) if feeds is not None else None
        self.fn = fn
        self.default = default
        self.calls = []
        self.returned = []

    def _t(self, size):
        idx = len(self.calls)
        if size is None:
            n = 1
            shape = ()
        elif isinstance(size, (tuple, list)):
            shape = tuple(int(s) for s in size)
            n = int(np.prod(shape)) if len(shape) else 1
        else:
            shape = (int(size),)
            n = int(size)
        if self.fn is not None:
            t = np.asarray(self.fn(idx, n), dtype=np.float64)
        elif self.feeds is not None and idx < len(self.feeds):
            t = np.asarray(self.feeds[idx], dtype=np.float64).ravel()
        else:
            t = np.full(n, self.default)
        if t.size < n:
            t = np.resize(t, n) if t.size else np.full(n, self.default)
        t = t[:n]
        return t.reshape(shape)

    def uniform(self, low=0.0, high=1.0, size=None):
        if size is None and (np.ndim(low) or np.ndim(high)):
            size = np.broadcast(low, high).shape
        t = self._t(size)
        self.calls.append(("uniform", low, high, size))
        r = low + (high - low) * t
        self.returned.append(r)
        return r

    def rand(self, *shape):
        t = self._t(shape if shape else None)
        self.calls.append(("rand", 0.0, 1.0, shape))
        self.returned.append(t)
        return t if shape else float(t)

    def random(self, size=None):
        t = self._t(size)
        self.calls.append(("random", 0.0, 1.0, size))
        self.returned.append(t)
        return t if size is not None else float(t)

    @contextlib.contextmanager
    def installed(self):
        saved = {k: getattr(np.random, k) for k in ("uniform", "rand", "random", "random_sample", "ranf", "sample") if hasattr(np.random, k)}
        np.random.uniform = self.uniform
        np.random.rand = self.rand
        np.random.random = self.random
        np.random.random_sample = self.random
        try:
            yield self
        finally:
            for k, v in saved.items():
                setattr(np.random, k, v)


@contextlib.contextmanager
def frozen_clock(stamp="20240101000000"):
    """results_table.init stamps simTime from datetime.datetime.now(); freeze it."""
    import nuspacesim.results_table as rt

    real = rt.datetime

    class _DT(_dt.datetime):
        @classmethod
        def now(cls, tz=None):
            return cls.strptime(stamp, "%Y%m%d%H%M%S")

    class _Mod:
        datetime = _DT

    rt.datetime = _Mod
    try:
        yield
    finally:
        rt.datetime = real


@contextlib.contextmanager
def null_progress():
    """cphotang.ProgressBar starts a 100 ms timer thread per compute(); replace by a null context."""
    import nuspacesim.simulation.eas_optical.cphotang as cp

    real = cp.ProgressBar

    class _Null:
        def __init__(self, *a, **k):
            pass

        def __enter__(self):
            return self

        def __exit__(self, *a):
            return False

    cp.ProgressBar = _Null
    try:
        yield
    finally:
        cp.ProgressBar = real


@contextlib.contextmanager
def quiet():
    """silence stdout chatter of production code (print warnings etc.)"""
    import io
    import sys

    old = sys.stdout
    sys.stdout = io.StringIO()
    try:
        yield
    finally:
        sys.stdout = old
