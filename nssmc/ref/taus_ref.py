"""Boring reference model for the tau tables: own HDF5 read, own four-corner bilinear blend, own piecewise-linear CDF."""

from functools import lru_cache
from importlib.resources import files

import h5py
import numpy as np

EPS32 = float(np.finfo(np.float32).eps)


@lru_cache(maxsize=None)
def load(version):
    out = {}
    for kind in ("cdf", "pexit"):
        p = files("nuspacesim.data.nupyprop_tables") / f"nu2tau_{kind}.{version}.h5"
        with h5py.File(p, "r") as f:
            data = f["/"]["__nss_grid_data__"][()]
            names = [f["/"].attrs[f"AXIS{i}"] for i in range(data.ndim)]
            names = [n.decode() if isinstance(n, bytes) else str(n) for n in names]
            axes = {n: f["/"]["__nss_grid_axes__"][n][()] for n in names}
        order = ["log_e_nu", "beta_rad"] + (["e_tau_frac"] if kind == "cdf" else [])
        data = np.moveaxis(data, [names.index(n) for n in order], list(range(len(order))))
        out[kind] = np.array(data, dtype=np.float64)
        out[kind + "_axes"] = {n: np.array(axes[n], dtype=np.float64) for n in order}
    return out


def _cell(ax, x):
    """index i and weight t with x = (1-t) ax[i] + t ax[i+1]; x must lie inside [ax[0], ax[-1]]"""
    x = np.asarray(x, dtype=np.float64)
    i = np.searchsorted(ax, x, side="right") - 1
    i = np.clip(i, 0, len(ax) - 2)
    t = (x - ax[i]) / (ax[i + 1] - ax[i])
    return i, t


def blend(table, le_ax, b_ax, le, b):
    """four-corner bilinear blend of table[le, b, ...] at points (le, b) (arrays)."""
    i, s = _cell(le_ax, le)
    j, t = _cell(b_ax, b)
    if table.ndim == 3:
        s = s[:, None]
        t = t[:, None]
    A = table[i, j]
    B = table[i + 1, j]
    C = table[i, j + 1]
    D = table[i + 1, j + 1]
    return (1 - s) * (1 - t) * A + s * (1 - t) * B + (1 - s) * t * C + s * t * D, (A, B, C, D)


def pexit_ref(version, le, b):
    """reference exit probability for in-table (le, b); clamps are the caller's business."""
    T = load(version)
    tab = T["pexit"].copy()
    tab[tab <= 0] = EPS32
    lg = np.log10(tab)
    v, corners = blend(lg, T["pexit_axes"]["log_e_nu"], T["pexit_axes"]["beta_rad"], le, b)
    cs = np.stack([10.0**c for c in corners])
    return 10.0**v, cs.min(axis=0), cs.max(axis=0)


def cdf_rows_ref(version, le, b):
    T = load(version)
    v, _ = blend(T["cdf"], T["cdf_axes"]["log_e_nu"], T["cdf_axes"]["beta_rad"], le, b)
    return v


def F_ref(zaxis, rows, z):
    """piecewise-linear CDF evaluated row by row: rows[k] tabulated on zaxis, at z[k]."""
    z = np.asarray(z, dtype=np.float64)
    i = np.searchsorted(zaxis, z, side="right") - 1
    i = np.clip(i, 0, len(zaxis) - 2)
    k = np.arange(len(z))
    x0 = rows[k, i]
    x1 = rows[k, i + 1]
    t = (z - zaxis[i]) / (zaxis[i + 1] - zaxis[i])
    return x0 + t * (x1 - x0)
