"""Scalar-loop reference for the acceptance integrals, written from the property text.

Reads only per-event columns and configuration values."""

import math

R = 6378.1
BSHR = 0.826


def mcnorm_ref(alt, angle_from_limb, cone, az):
    """normalisation of the diffuse estimator: R^2 / (product of the four sampling-density normalisations),
    written out from the geometry: d(phi_tr) uniform on 2pi, sin^2(theta_tr) uniform on [0, sin^2(cone)],
    phi_S uniform on az, L distributed with density ~ (K - L^2) on [Lmin, Lmax]."""
    c = R + alt
    K = c * c - R * R
    aH = math.asin(R / c)
    a = aH - angle_from_limb
    Lmax = math.sqrt(K)
    Lmin = c * math.cos(a) - math.sqrt(R * R - (c * math.sin(a)) ** 2)
    bracket = K * (Lmax - Lmin) - (Lmax**3 - Lmin**3) / 3.0
    norm_theta_tr = 2.0 / math.sin(cone) ** 2
    norm_phi_tr = 1.0 / (2 * math.pi)
    norm_phi_s = 1.0 / az
    norm_theta_s = 2.0 * c * R * R / bracket
    return R * R / (norm_theta_tr * norm_phi_tr * norm_phi_s * norm_theta_s)


def diffuse(alt, angle_from_limb, cone, az, n_thrown, beta, theta, path_len, trigger, cos_eff, pexit, threshold, spec_norm=1.0, spec_wsum=1.0):
    """returns (integral, geo_only, n_pass, per_event_contributions). cos_eff: per-event list or scalar."""
    c = R + alt
    K = c * c - R * R
    norm = mcnorm_ref(alt, angle_from_limb, cone, az)
    geo = 0.0
    full = 0.0
    npass = 0
    contrib = []
    for i in range(len(beta)):
        ce = cos_eff[i] if hasattr(cos_eff, "__len__") else cos_eff
        cos_trn = math.sin(beta[i])
        cos_nv = (K - path_len[i] ** 2) / (2 * R * path_len[i])
        cos_trv = math.cos(theta[i])
        w = cos_trn / cos_nv / cos_trv
        if cos_trv < ce:  # detector outside the effective Cherenkov cone
            w = 0.0
        geo += w
        x = w * BSHR * pexit[i] / spec_norm / spec_wsum
        if trigger[i] < threshold:
            x = 0.0
        full += x
        if x != 0:
            npass += 1
        contrib.append(x)
    return full * norm / n_thrown, geo * norm / n_thrown, npass, contrib


def target(n_thrown, path_len, len_dec, trigger, cos_eff, pexit, threshold, dark=None, spec_norm=1.0, spec_wsum=1.0):
    """dark: per-event bool list (optical with cuts on) or None."""
    geo = 0.0
    full = 0.0
    npass = 0
    contrib = []
    for i in range(len(path_len)):
        ce = cos_eff[i] if hasattr(cos_eff, "__len__") else cos_eff
        rem = path_len[i] - len_dec[i]
        th = math.acos(ce)
        a = math.pi * rem * rem * math.tan(th) ** 2 if rem > 0 else 0.0
        geo += a
        x = a * BSHR * pexit[i] / spec_norm / spec_wsum
        if trigger[i] < threshold:
            x = 0.0
        if dark is not None and not dark[i]:
            x = 0.0
        full += x
        if x != 0:
            npass += 1
        contrib.append(x)
    return full / n_thrown, geo / n_thrown, npass, contrib
