"""Explicit-vector reference model of the diffuse geometry (boring on purpose: unit vectors and dot products)."""

import numpy as np

R = 6378.1  # astropy nominal R_earth in km


def unit_from_latlong(lat, lon):
    """geocentric unit vector; lat, lon in radians"""
    return np.stack([np.cos(lat) * np.cos(lon), np.cos(lat) * np.sin(lon), np.sin(lat)], axis=-1)


def limits(alt, angle_from_limb):
    """(L_min, L_max, alpha_horizon) from the Earth-centre / detector / spot triangle"""
    c = R + alt
    aH = np.arcsin(R / c)
    a = aH - angle_from_limb
    Lmax = np.sqrt(c * c - R * R)
    Lmin = c * np.cos(a) - np.sqrt(R * R - (c * np.sin(a)) ** 2)
    return Lmin, Lmax, aH


def cdf_residual(alt, angle_from_limb, L, u4):
    """residual of 3KL - L^3 = 3K Lmax - Lmax^3 - b u4, relative to b"""
    c = R + alt
    K = c * c - R * R
    Lmin, Lmax, _ = limits(alt, angle_from_limb)
    f = lambda x: 3 * K * x - x**3
    b = f(Lmax) - f(Lmin)
    return (f(L) - (f(Lmax) - b * u4)) / b


def vectors(alt, det_lat, det_long, latS_deg, longS_deg):
    """D (detector), P (spot), n (local vertical at the spot) from reported coordinates"""
    c = R + alt
    D = c * unit_from_latlong(np.asarray(det_lat, dtype=float), np.asarray(det_long, dtype=float))
    n = unit_from_latlong(np.radians(latS_deg), np.radians(longS_deg))
    P = R * n
    return D, P, n


def trajectory(D, P, n, theta, phi):
    """trajectory direction d: angle theta to the line of sight V (spot -> detector), azimuth phi about V measured so
    that d.n = cos(theta) cos(theta_NV) - sin(theta) sin(theta_NV) cos(phi)   (phi = 0 tilts away from the vertical)."""
    V = D - P
    L = np.linalg.norm(V, axis=-1)
    V = V / L[..., None]
    cnv = np.sum(V * n, axis=-1)
    e1 = n - cnv[..., None] * V
    ne1 = np.linalg.norm(e1, axis=-1)
    with np.errstate(invalid="ignore", divide="ignore"):
        e1 = e1 / ne1[..., None]
    e2 = np.cross(V, e1)
    d = np.cos(theta)[..., None] * V + np.sin(theta)[..., None] * (-np.cos(phi)[..., None] * e1 + np.sin(phi)[..., None] * e2)
    return d, V, L, cnv


def emergence(d, n):
    """(beta_deg, cos(theta_trN))"""
    ct = np.clip(np.sum(d * n, axis=-1), -1.0, 1.0)
    return 90.0 - np.degrees(np.arccos(ct)), ct


def central_angle(a, b):
    """angle between unit vectors, robust for small angles"""
    cr = np.linalg.norm(np.cross(a, b), axis=-1)
    dt = np.sum(a * b, axis=-1)
    return np.arctan2(cr, dt)
