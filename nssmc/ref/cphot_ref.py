"""Independent double-precision statement of the optical shower model (DESIGN.md Appendix A).

Plain float64 loop over 0.1 km track segments; vector operations only over wavelength bins, ring index and Hillas
energy bins.  Written from the model description, not by editing the production kernel.
"""

import math

import numpy as np

R = 6378.14
ORBIT = 525.0
TOP = 65.0
DL = 0.1
WLO = np.arange(200.0, 900.0, 25.0)  # 28 lower edges
WHI = WLO + 25.0
WMEAN = WLO + 12.5
ECRIT = 0.710 / (7.4 + 0.96)
X0 = 36.66
ALPHA = 1.0 / 137.04

OZ_Z = np.array([5.35, 10.2, 14.75, 19.15, 23.55, 28.1, 32.8, 37.7, 42.85, 48.25, 100.0])
OZ_DEPTH = np.array([15.0, 9.0, 10.0, 31.0, 71.0, 87.2, 57.0, 29.4, 10.9, 3.2, 1.3])
OZ_DSUM = np.array([310.0, 301.0, 291.0, 260.0, 189.0, 101.8, 44.8, 15.4, 4.5, 1.3, 0.1])
AOD55 = np.array([0.250, 0.136, 0.086, 0.065, 0.055, 0.049, 0.045, 0.042, 0.038, 0.035, 0.032, 0.029, 0.026, 0.023, 0.020, 0.017, 0.015, 0.012, 0.010, 0.007, 0.006, 0.004, 0.003, 0.003, 0.002, 0.002, 0.001, 0.001, 0.001, 0.001])
P5 = [-1.2971, 0.22046e-01, -0.19505e-04, 0.94394e-08, -0.21938e-11, 0.19390e-15]

BETA_F = 1.0 / sum(c * WMEAN**k for k, c in enumerate(P5)) / 0.158
OKAPPA = -1e-3 * 10.0 ** (110.5 - 44.21 * np.log10(WMEAN))
YIELD_W = 2e12 * DL * math.pi * ALPHA * (1.0 / WLO - 1.0 / WHI)
RAYL_W = (400.0 / WMEAN) ** 4


def depth_density(z):
    """vertical depth X (g/cm^2) and density (g/cm^3) of the three-branch parametrisation"""
    if z < 11.0:
        b = (z - 44.34) / -11.861
        X = b ** (1.0 / 0.19)
        rho = -1.0e-5 * (1.0 / 0.19) / (-11.861) * b ** (1.0 / 0.19 - 1.0)
    elif z < 25.0:
        X = math.exp((z - 45.5) / -6.34)
        rho = -1e-5 * (1.0 / -6.34) * X
    else:
        q = math.sqrt(28.920 + 3.344 * z)
        X = math.exp(13.841 - q)
        rho = 0.5e-5 * 3.344 / q * X
    return X, rho


def ozone_column(z):
    if z < 5.35:
        return 310.0 + (5.35 - z) / 5.35 * 15.0
    if z >= 100.0:
        return 0.1
    i = int(np.searchsorted(OZ_Z, z, side="left"))
    if i == 0:  # z == 5.35 exactly
        return OZ_DSUM[0]
    return OZ_DSUM[i] + (OZ_Z[i] - z) / (OZ_Z[i] - OZ_Z[i - 1]) * OZ_DEPTH[i]


def aerosol_od(z):
    i = int(z)
    nxt = AOD55[i + 1] if i + 1 < len(AOD55) else AOD55[i]
    return AOD55[i] - (z - i) * (AOD55[i] - nxt)


def track_fraction(E0, E, s):
    return ((0.89 * E0 - 1.2) / (E0 + E)) ** s / (1.0 + 1e-4 * s * E) ** 2


def steps(z0, sin_view):
    """segment mid-point altitudes and altitude increments from z0 up to TOP"""
    zs, dz = [], []
    z = z0
    while z <= TOP:
        rho = z + R
        th = math.acos(sin_view * (R + ORBIT) / rho)
        d = math.sqrt(rho * rho + DL * DL - 2.0 * rho * DL * math.cos(math.pi / 2 + th)) - rho
        zs.append(z + d / 2)
        dz.append(d)
        z += d
    return np.array(zs), np.array(dz)


def straight_line_distance(beta, z_from, z_to):
    s = lambda z: -R * math.sin(beta) + math.sqrt((R * math.sin(beta)) ** 2 + 2 * R * z + z * z)
    return s(z_to) - s(z_from)


def shower(beta, z_decay, E100PeV, det_alt=525.0, cloud_top=-math.inf, detail=False):
    """returns (photon density at the detector [m^-2], effective Cherenkov angle [deg])"""
    beta = max(beta, math.radians(1.0))
    E = E100PeV * 1e8  # GeV
    view = math.asin(R * math.cos(beta) / (R + ORBIT))
    sv = math.sin(view)
    zs, dz = steps(z_decay, sv)
    n = len(zs)
    X = np.empty(n)
    rho = np.empty(n)
    for i, z in enumerate(zs):
        X[i], rho[i] = depth_density(z)
    dg = rho * DL * 1e5
    g = np.cumsum(dg)  # slant depth from the decay point
    G = np.cumsum(dg[::-1])[::-1]  # slant depth to the top
    T = np.array([ozone_column(z_decay)] + [ozone_column(z) for z in zs])
    oz = (T[:-1] - T[1:]) / dz * DL
    O = np.cumsum(oz[::-1])[::-1]
    prop = np.arccos(sv * (R + ORBIT) / (R + zs))
    nair = 1.0 + 0.000296 * (X / 1032.9414) * (273.2 / (204.0 + 0.091 * X))
    y = math.log(E / ECRIT)
    t = g / X0
    age = 3.0 * t / (t + 2.0 * y)
    with np.errstate(all="ignore"):
        N = 0.31 / math.sqrt(y) * np.exp(t * (1.0 - 1.5 * np.log(age)))
        N = np.where(N < 0, 0.0, N)
        e2 = 1150.0 + 454.0 * np.log(age)
    keep = (nair != 1.0) & ~((N < 1.0) & (age > 1.0)) & ~(e2 <= 0)
    idx = np.where(keep)[0]
    if len(idx) < 2:
        return (0.0, 0.0) if not detail else (0.0, 0.0, {})
    if zs[idx[-2]] < cloud_top:
        return (0.0, 0.0) if not detail else (0.0, 0.0, {})
    imax = idx[int(np.argmax(N[idx]))]
    I = int(math.floor(math.log10(E))) + 1
    edges = 10.0 ** np.arange(1.0, I + 2.0)  # MeV
    S = 0.0
    W = np.zeros(n)
    thC = np.zeros(n)
    dist = np.zeros(n)
    for i in idx:
        s = age[i]
        E0 = 26.0 if s < 0.4 else 44.0 - 17.0 * (s - 1.46) ** 2
        EC = 0.511 / math.sqrt(1.0 - 1.0 / nair[i] ** 2)
        thC[i] = math.acos(1.0 / nair[i])
        TC = track_fraction(E0, EC, s)
        D = math.sin(math.pi / 2 - view - prop[i]) / sv * (R + zs[i])
        dist[i] = D
        if zs[i] < cloud_top:
            continue  # light emitted below the cloud top is removed
        Y = math.sin(thC[i]) ** 2 * YIELD_W * np.exp(-G[i] / 2974.0 * RAYL_W) * np.exp(O[i] * OKAPPA)
        if zs[i] < 30.0:
            Y = Y * np.exp(-aerosol_od(zs[i]) * BETA_F / math.cos(math.pi / 2 - prop[i]))
        Ysum = float(np.sum(Y)) * N[i]
        W[i] = Ysum * TC
        # angular integration over rings and Hillas energy bins
        jmax = int(math.floor(D * math.tan(thC[i])))
        if jmax < 1:
            continue
        j = np.arange(1, jmax + 1, dtype=float)
        lo, hi = edges[:-1], edges[1:]
        Ebar = np.where(EC >= lo, (EC + hi) / 2.0, 5.0 * lo)
        Tl = np.where(EC >= edges, TC, track_fraction(E0, edges, s))
        dT = np.maximum(Tl[:-1] - Tl[1:], 0.0)
        v = Ebar / e2[i]
        wbar = 0.0054 * Ebar * (1.0 + v) / (1.0 + 13.0 * v + 8.3 * v * v)
        scale = (Ebar / 21.0) ** 2 / wbar  # (e,)
        f = lambda ang: 4.0 * np.sin(ang / 2.0) ** 2  # == 2(1 - cos)
        u_mid = f(np.arctan2(j - 0.5, D))[:, None] * scale[None, :]
        du = np.maximum((f(np.arctan2(j, D)) - f(np.arctan2(j - 1.0, D)))[:, None] * scale[None, :], 0.0)
        x = np.sqrt(u_mid) - 0.59
        kern = 0.777 * np.exp(-x / np.where(x < 0, 0.478, 0.380))
        S += Ysum * float(np.sum(kern * du * dT[None, :]))
    Wsum = float(np.sum(W))
    if Wsum == 0.0:
        return (0.0, 0.0) if not detail else (0.0, 0.0, {})
    mean = float(np.sum(W * thC)) / Wsum
    var = float(np.sum(W / Wsum * (thC - mean) ** 2))
    m = int(np.count_nonzero(W * thC))
    sig = math.sqrt(var * m / (m - 1)) if m > 1 else math.sqrt(var)
    area = math.pi * (math.tan(mean) * 1e3 * dist[imax]) ** 2
    dens = 0.5 * S / area
    b = beta
    dens *= (straight_line_distance(b, z_decay, ORBIT) / straight_line_distance(b, z_decay, det_alt)) ** 2
    ang = math.degrees(mean + sig)
    if detail:
        return dens, ang, dict(zs=zs, dz=dz, keep=keep, N=N, age=age)
    return dens, ang
