"""Independent reference for the diffuse geometric aperture  A = ∫ cos(theta_trN) dA dOmega  (DESIGN.md Appendix B).

Physical coordinates only: line-of-sight length L in [L_min, L_max], spot azimuth (range d_phi), trajectory polar
angle theta in [0, theta_max] about the line of sight, trajectory azimuth phi in [0, 2pi).  Nothing here uses the
production sampling densities or weights.

    A = d_phi * ∫ (R L / c) dL ∫ sin(theta) dtheta * Phi(theta, L)
    Phi = ∫ (a - b cos(phi)) dphi over { phi : 0 <= a - b cos(phi) < sin 42° },  a = cos(theta)cos(theta_NV), b = sin(theta)sin(theta_NV)

Quadrature: panels split at every L / theta where a clip boundary is crossed; inside a panel the substitution
x = x0 + (x1-x0)(1-cos(pi t))/2 removes the square-root end-point behaviour, Gauss-Legendre in t.
"""

import numpy as np

R = 6378.1
S42 = np.sin(np.radians(42.0))


def _phi_integral(a, b):
    """Phi for arrays a, b (b >= 0)."""
    with np.errstate(invalid="ignore", divide="ignore"):
        x1 = np.clip(a / b, -1.0, 1.0)
        x2 = np.clip((a - S42) / b, -1.0, 1.0)
    p1 = np.arccos(x1)  # cos(phi) <= a/b  <=> phi >= p1     (a - b cos phi >= 0)
    p2 = np.arccos(x2)  # cos(phi) >  (a-S42)/b <=> phi < p2  (a - b cos phi < S42)
    val = 2.0 * (a * (p2 - p1) - b * (np.sin(p2) - np.sin(p1)))
    val = np.where(p2 > p1, val, 0.0)
    tiny = b < 1e-300
    val0 = np.where((a >= 0) & (a < S42), 2 * np.pi * a, 0.0)
    return np.where(tiny, val0, val)


def _gl(n):
    x, w = np.polynomial.legendre.leggauss(n)
    return 0.5 * (x + 1), 0.5 * w  # on [0,1]


def _panel_nodes(x0, x1, n):
    t, w = _gl(n)
    x = x0 + (x1 - x0) * (1 - np.cos(np.pi * t)) / 2
    dx = (x1 - x0) * (np.pi / 2) * np.sin(np.pi * t)
    return x, w * dx


def _theta_nv(L, c):
    K = c * c - R * R
    return np.arccos(np.clip((K - L * L) / (2 * R * L), -1.0, 1.0))


def _L_of_theta_nv(tnv, c):
    """invert cos(theta_NV) = (K - L^2)/(2RL) for L > 0"""
    K = c * c - R * R
    ct = np.cos(tnv)
    return -R * ct + np.sqrt(R * R * ct * ct + K)


def aperture(alt, angle_from_limb, theta_max, d_phi, n=24, sub=1):
    c = R + alt
    aH = np.arcsin(R / c)
    a_min = aH - angle_from_limb
    Lmax = np.sqrt(c * c - R * R)
    Lmin = c * np.cos(a_min) - np.sqrt(R * R - (c * np.sin(a_min)) ** 2)
    # outer break points: theta_NV in {48°, 90°} shifted by 0, +-theta_max
    brk = [Lmin, Lmax]
    for base in (np.radians(48.0), np.radians(90.0)):
        for sh in (-theta_max, 0.0, theta_max):
            t = base + sh
            if 0 < t < np.pi:
                Lb = _L_of_theta_nv(t, c)
                if Lmin < Lb < Lmax:
                    brk.append(Lb)
    brk = np.unique(brk)
    if sub > 1:
        brk = np.unique(np.concatenate([np.linspace(brk[i], brk[i + 1], sub + 1) for i in range(len(brk) - 1)]))
    total = 0.0
    for i in range(len(brk) - 1):
        Ls, wL = _panel_nodes(brk[i], brk[i + 1], n)
        for L, w in zip(Ls, wL):
            tnv = _theta_nv(L, c)
            tb = [0.0, theta_max]
            for base in (np.radians(48.0), np.radians(90.0)):
                for cand in (base - tnv, tnv - base):
                    if 0 < cand < theta_max:
                        tb.append(cand)
            tb = np.unique(tb)
            if sub > 1:
                tb = np.unique(np.concatenate([np.linspace(tb[j], tb[j + 1], sub + 1) for j in range(len(tb) - 1)]))
            inner = 0.0
            for j in range(len(tb) - 1):
                th, wt = _panel_nodes(tb[j], tb[j + 1], n)
                a = np.cos(th) * np.cos(tnv)
                b = np.sin(th) * np.sin(tnv)
                inner += np.sum(wt * np.sin(th) * _phi_integral(a, b))
            total += w * (R * L / c) * inner
    return d_phi * total


def aperture_with_error(alt, angle_from_limb, theta_max, d_phi):
    a1 = aperture(alt, angle_from_limb, theta_max, d_phi, n=20, sub=1)
    a2 = aperture(alt, angle_from_limb, theta_max, d_phi, n=28, sub=2)
    return a2, abs(a2 - a1)
