"""Reference for target-mode geometry: independent transformation path (ICRS -> ITRS vectors dotted with the geodetic up
vector) and explicit Earth-centre / detector / ground-spot triangle."""

import math

import numpy as np

R = 6378.1


def geodetic_up(lat, lon):
    return np.array([math.cos(lat) * math.cos(lon), math.cos(lat) * math.sin(lon), math.sin(lat)])


def source_altitude(ra, dec, times, lat, lon):
    """altitude (rad) of a fixed ICRS direction seen from geodetic (lat, lon): ITRS direction . geodetic up"""
    import astropy.coordinates as ac
    import astropy.units as u

    c = ac.SkyCoord(ra=ra * u.rad, dec=dec * u.rad, frame="icrs")
    it = c.transform_to(ac.ITRS(obstime=times))
    v = np.atleast_2d(np.asarray(it.cartesian.xyz.value).T)
    v = v / np.linalg.norm(v, axis=1)[:, None]
    return np.arcsin(np.clip(v @ geodetic_up(lat, lon), -1, 1))


def body_altitude(body, times, lat, lon, height_km):
    """topocentric altitude of sun/moon by explicit vectors in ITRS"""
    import astropy.coordinates as ac
    import astropy.units as u

    b = ac.get_body(body, times)
    it = b.transform_to(ac.ITRS(obstime=times))
    p = np.atleast_2d(np.asarray(it.cartesian.xyz.to_value(u.km)).T)
    loc = ac.EarthLocation(lat=lat * u.rad, lon=lon * u.rad, height=height_km * 1000 * u.m)
    o = np.array([loc.x.to_value(u.km), loc.y.to_value(u.km), loc.z.to_value(u.km)])
    d = p - o[None, :]
    d = d / np.linalg.norm(d, axis=1)[:, None]
    return np.arcsin(np.clip(d @ geodetic_up(lat, lon), -1, 1))


def moon_phase(times):
    """phase angle at the Moon between Sun and Earth from geocentric vectors (0 = full, pi = new)"""
    import astropy.coordinates as ac
    import astropy.units as u

    s = ac.get_body("sun", times)
    m = ac.get_body("moon", times)
    S = np.atleast_2d(np.asarray(s.cartesian.xyz.to_value(u.km)).T)
    M = np.atleast_2d(np.asarray(m.cartesian.xyz.to_value(u.km)).T)
    a = S - M
    b = -M
    cr = np.linalg.norm(np.cross(a, b), axis=1)
    dt = np.sum(a * b, axis=1)
    return np.arctan2(cr, dt)


def horizon_nadir(alt):
    return math.asin(R / (R + alt))


def beta_limit(alt, limb):
    c = R + alt
    a = horizon_nadir(alt) - limb
    return min(math.radians(42.0), math.acos(min(1.0, c / R * math.sin(a))))


def triangle(alt, nadir, beta, L):
    """residuals of the explicit triangle: |D + L l| - R, and sin(beta) - (-l).n"""
    c = R + alt
    D = np.array([0.0, 0.0, c])
    l = np.stack([np.sin(nadir), np.zeros_like(nadir), -np.cos(nadir)], axis=-1)
    S = D[None, :] + L[:, None] * l
    rS = np.linalg.norm(S, axis=1)
    n = S / rS[:, None]
    sb = np.sum(-l * n, axis=1)
    return rS - R, np.sin(beta) - sb
