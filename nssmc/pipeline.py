"""Conformance of compute()'s wiring with the stages it drives.

A results table is produced by nuspacesim.compute() with every random draw recorded. For one stage, a FRESH stage object
is then applied to the table's stored INPUT columns while the run's recorded draws are replayed from every possible
starting position; the stage conforms when, for some starting position, every output equals the stored OUTPUT column bit
for bit. The mapping "return value -> column name" is written down here (from compute()'s own variable names), not taken
from the decorators, so a column stored under the wrong name, arguments passed in the wrong order, an input overwritten
between stages, or state carried from one stage object into the next all show up as "no starting position explains the
stored column". What a stage computes is judged by that stage's own check; this judges only that the run's columns ARE
the stage applied to the run's columns.
"""

from __future__ import annotations

import contextlib
import math

import numpy as np

from . import own, sim

STAGE_IO = {
    "geometry": ([], ["beta_rad", "theta_rad", "path_len", "init_lat", "init_lon"]),
    "spectrum": ([], ["log_e_nu"]),
    "taus": (["beta_rad", "log_e_nu"], ["tauBeta", "tauLorentz", "tauEnergy", "showerEnergy", "tauExitProb"]),
    "decay": (["beta_rad", "tauBeta", "tauLorentz"], ["altDec", "lenDec"]),
    "optical": (["beta_rad", "altDec", "showerEnergy", "init_lat", "init_lon"], ["numPEs", "costhetaChEff"]),
    "radio": (["beta_rad", "altDec", "lenDec", "theta_rad", "path_len", "showerEnergy"], ["EFields"]),
}

SPECS = {
    "A": dict(mode="Diffuse", spectrum="power", cloud="map", optical=True, radio=True, n=80, altitude=525.0, det_lat=0.3, det_long=-1.0, extra={"simulation": {"tau_shower": {"etau_frac": 0.4}}}),
    "B": dict(mode="Target", spectrum="mono", cloud="mono", optical=True, radio=True, n=600, altitude=33.0, det_lat=-0.2, det_long=0.7, extra={"detector": {"optical": {"quantum_efficiency": 0.35, "telescope_effective_area": 1.5, "photo_electron_threshold": 4.0}, "radio": {"low_frequency": 50.0, "high_frequency": 400.0, "nantennas": 6}}}),
    "C": dict(mode="Diffuse", spectrum="mono", cloud="none", optical=True, radio=True, n=60, altitude=400.0, det_lat=-0.9, det_long=2.5, logE=9.5),
    # a balloon-altitude detector and energies at which many taus decay above it
    "D": dict(mode="Diffuse", spectrum="mono", cloud="none", optical=True, radio=True, n=60, altitude=33.0, det_lat=0.5, det_long=1.2, logE=10.5),
}


class Mismatch(Exception):
    pass


class Recorder:
    """passes np.random's legacy global draws through and records what they returned"""

    def __init__(self):
        self.rec = []

    @contextlib.contextmanager
    def installed(self):
        names = [k for k in ("uniform", "rand", "random", "random_sample") if hasattr(np.random, k)]
        saved = {k: getattr(np.random, k) for k in names}

        def wrap(k):
            def f(*a, **kw):
                r = saved[k](*a, **kw)
                self.rec.append(np.array(r, dtype=np.float64, copy=True))
                return r

            return f

        for k in names:
            setattr(np.random, k, wrap(k))
        try:
            yield self
        finally:
            for k, v in saved.items():
                setattr(np.random, k, v)


class Replayer:
    """returns the recorded draws in order; a draw of another shape than recorded is a Mismatch"""

    def __init__(self, rec):
        self.rec = list(rec)
        self.i = 0

    def _next(self, shape):
        if self.i >= len(self.rec):
            raise Mismatch("more draws than recorded")
        r = self.rec[self.i]
        self.i += 1
        if shape is not None and tuple(r.shape) != tuple(shape):
            raise Mismatch(f"draw of shape {shape}, recorded {r.shape}")
        return r.copy()

    @staticmethod
    def _shape(size):
        if size is None:
            return ()
        if isinstance(size, (tuple, list)):
            return tuple(int(s) for s in size)
        return (int(size),)

    @contextlib.contextmanager
    def installed(self):
        saved = {k: getattr(np.random, k) for k in ("uniform", "rand", "random", "random_sample") if hasattr(np.random, k)}

        def uniform(low=0.0, high=1.0, size=None):
            if size is None and (np.ndim(low) or np.ndim(high)):
                size = np.broadcast(low, high).shape
            return self._next(self._shape(size))

        np.random.uniform = uniform
        np.random.rand = lambda *shape: self._next(tuple(int(s) for s in shape))
        np.random.random = lambda size=None: self._next(self._shape(size))
        np.random.random_sample = np.random.random
        try:
            yield self
        finally:
            for k, v in saved.items():
                setattr(np.random, k, v)


def run_recorded(spec, seed=5):
    import nuspacesim

    cfg = sim.make_config(**spec)
    rec = Recorder()
    with sim.owned(seed, "synchronous"), own.quiet(), rec.installed(), np.errstate(all="ignore"):
        t = nuspacesim.compute(cfg)
    return cfg, t, rec.rec


def _col(t, name):
    from astropy.time import Time

    c = t[name]
    if isinstance(c, Time):
        return np.stack([np.asarray(c.jd1, dtype=np.float64), np.asarray(c.jd2, dtype=np.float64)])
    return np.array(np.asarray(c), copy=True)


def apply_stage(stage, cfg, t):
    """fresh stage object(s) on the stored input columns -> {column name: array}"""
    ins = {n: _col(t, n) for n in STAGE_IO[stage][0]}
    if stage == "geometry":
        from nuspacesim.simulation.geometry.region_geometry import RegionGeom, RegionGeomToO

        g = (RegionGeomToO if cfg.simulation.mode == "Target" else RegionGeom)(cfg)
        beta, theta, plen, *_ = g(cfg.simulation.thrown_events)
        lat, lon = g.find_lat_long_along_traj(np.zeros_like(beta))
        return dict(beta_rad=beta, theta_rad=theta, path_len=plen, init_lat=lat, init_lon=lon)
    if stage == "spectrum":
        from nuspacesim.simulation.spectra.spectra import Spectra

        le, _, _ = Spectra(cfg)(len(t))
        return dict(log_e_nu=le)
    if stage == "taus":
        from nuspacesim.simulation.taus.taus import Taus

        r = Taus(cfg)(ins["beta_rad"], ins["log_e_nu"])
        return dict(zip(STAGE_IO["taus"][1], r))
    if stage == "decay":
        from nuspacesim.simulation.eas_optical.eas import EAS

        a, l = EAS(cfg).altDec(ins["beta_rad"], ins["tauBeta"], ins["tauLorentz"])
        return dict(altDec=a, lenDec=l)
    if stage == "optical":
        from nuspacesim.simulation.atmosphere.clouds import CloudTopHeight
        from nuspacesim.simulation.eas_optical.eas import EAS

        pe, ce = EAS(cfg)(ins["beta_rad"], ins["altDec"], ins["showerEnergy"], ins["init_lat"], ins["init_lon"], cloudf=CloudTopHeight(cfg))
        return dict(numPEs=pe, costhetaChEff=ce)
    if stage == "radio":
        from nuspacesim.simulation.eas_radio.radio import EASRadio

        ef = EASRadio(cfg)(*[ins[n] for n in STAGE_IO["radio"][0]])
        return dict(EFields=ef)
    raise ValueError(stage)


def judge_stage(stage, cfg, t, rec):
    """[] when some starting position in the recorded draws explains every output column of the stage"""
    if len(t) == 0:
        return []
    outs = [n for n in STAGE_IO[stage][1]]
    missing = [n for n in STAGE_IO[stage][0] + outs if n not in t.colnames]
    if missing:
        return [("run_has_the_stage_columns", f"columns {STAGE_IO[stage][0] + outs}", f"missing {missing}")]
    best = None
    for s in range(len(rec) + 1):
        rp = Replayer(rec[s:])
        try:
            with sim.owned(0, "synchronous"), own.quiet(), rp.installed(), np.errstate(all="ignore"):
                got = apply_stage(stage, cfg, t)
        except Mismatch:
            continue
        bad = []
        for n in outs:
            a = np.asarray(got[n])
            b = _col(t, n)
            if a.shape != b.shape or np.ascontiguousarray(a).astype(b.dtype, copy=False).tobytes() != np.ascontiguousarray(b).tobytes():
                bad.append(n)
        if not bad:
            return []
        if best is None or len(bad) < len(best[1]):
            best = (s, bad)
    if best is None:
        return [("run_column_is_the_stage_applied_to_the_stored_inputs", f"stage {stage}: outputs {outs} reproducible from the stored inputs and the run's draws", "the stage draws random numbers in a pattern the run never produced")]
    return [("run_column_is_the_stage_applied_to_the_stored_inputs", f"stage {stage}: outputs {outs} equal a fresh stage applied to the stored columns {STAGE_IO[stage][0]}", f"columns {best[1]} differ (closest: draws replayed from position {best[0]})")]


def judge(stages, spec_keys=("A", "B", "C")):
    """returns (violations [(clause, expected, observed, spec key, stage)], number of stage replays)"""
    out = []
    n = 0
    for k in spec_keys:
        try:
            cfg, t, rec = run_recorded(SPECS[k])
        except Exception as ex:
            out.append(("pipeline_run_completes", f"compute() for pipeline spec {k}", f"{type(ex).__name__}: {str(ex)[:120]}", k, None))
            continue
        for st in stages:
            if st == "optical" and not cfg.detector.optical.enable or st == "radio" and not cfg.detector.radio.enable:
                continue
            n += 1
            try:
                v = judge_stage(st, cfg, t, rec)
            except Exception as ex:
                v = [("pipeline_stage_replay_completes", f"stage {st} on the stored columns of spec {k}", f"{type(ex).__name__}: {str(ex)[:120]}")]
            out += [(c, e, o, k, st) for c, e, o in v]
    return out, n


def judge_plots(names, spec_keys=("A", "C")):
    """a run in which a diagnostic plot is requested (headless backend, show() stubbed) produces the table of the same run
    without plots, bit for bit: the plot helpers receive the very arrays the stages return. A plot helper that itself
    fails (some do for degenerate data) is outside every listed property and is skipped."""
    import matplotlib

    matplotlib.use("Agg")
    import matplotlib.pyplot as plt
    import nuspacesim

    out = []
    n = 0
    show = plt.show
    plt.show = lambda *a, **k: None
    try:
        for k in spec_keys:
            cfg = sim.make_config(**SPECS[k])
            with sim.owned(5, "synchronous"), own.quiet(), np.errstate(all="ignore"):
                t0 = nuspacesim.compute(cfg)
            for nm in names:
                cfg = sim.make_config(**SPECS[k])
                try:
                    with sim.owned(5, "synchronous"), own.quiet(), np.errstate(all="ignore"):
                        t1 = nuspacesim.compute(cfg, to_plot=[nm])
                except Exception as ex:
                    import traceback

                    frames = [f.filename for f in traceback.extract_tb(ex.__traceback__) if "nuspacesim" in f.filename.replace("\\", "/").split("site-packages")[-1] and "/nssmc/" not in f.filename]
                    if frames and (frames[-1].endswith("plots.py") or "plot" in frames[-1].rsplit("/", 1)[-1]):
                        continue  # the plot helper itself failed (degenerate data): outside every listed property
                    n += 1
                    out.append(("requesting_a_plot_does_not_change_the_results", f"spec {k}, plot {nm}: the run completes as it does without plots", f"{type(ex).__name__}: {str(ex)[:100]} (raised in {frames[-1].rsplit('/', 1)[-1] if frames else '?'})", k, nm))
                    continue
                finally:
                    plt.close("all")
                n += 1
                if sim.table_digest(t0) != sim.table_digest(t1):
                    bad = [c for c in t0.colnames if c not in t1.colnames or np.asarray(t0[c]).tobytes() != np.asarray(t1[c]).tobytes()] if len(t0) == len(t1) else ["row count"]
                    bad += [kk for kk in t0.meta if t1.meta.get(kk) != t0.meta[kk] and not (isinstance(t0.meta[kk], tuple) and isinstance(t0.meta[kk][0], float) and t0.meta[kk][0] != t0.meta[kk][0])]
                    out.append(("requesting_a_plot_does_not_change_the_results", f"spec {k}, plot {nm}: the table of the run without plots", f"differs in {bad[:6]}", k, nm))
    finally:
        plt.show = show
    return out, n


def run_in(ctx, stages, spec_keys=("A", "B", "C"), plots=()):
    """shared entry for the checks: ticks, violations (case kind 'pipeline')"""
    v, n = judge(stages, spec_keys)
    for k in spec_keys:
        for st in stages:
            ctx.tick(1, ("pipeline", k, st))
    for c, e, o, k, st in v:
        ctx.violation(c, {"kind": "pipeline", "spec": k, "stage": st}, e, o)
    ctx.cov["pipeline_stage_replays"] = n
    if plots:
        v, n = judge_plots(list(plots))
        for nm in plots:
            ctx.tick(2, ("plot", nm))
        for c, e, o, k, nm in v:
            ctx.violation(c, {"kind": "pipeline", "spec": k, "plot": nm}, e, o)
        ctx.cov["runs_with_a_plot_requested"] = n


def replay(case):
    if case.get("plot"):
        v, _ = judge_plots([case["plot"]], (case["spec"],))
        return [(c, e, o) for c, e, o, k, nm in v]
    v, _ = judge([case["stage"]] if case.get("stage") else list(STAGE_IO), (case["spec"],))
    return [(c, e, o) for c, e, o, k, st in v]
