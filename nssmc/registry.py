"""Per-property registration used to generate MANIFEST.json (tools/gen_manifest.py)."""

HOOK_COMMITS = []

NOT_APPLICABLE = {}

CHECKS = {
    "C19": dict(
        engine="E1-lattice",
        level="exploration",
        design_ref="DESIGN.md §3 C19",
        technique="bounded exhaustive enumeration of an input alphabet (all doubles within ±64/±4096 ulp of every layer boundary, 1 m / 0.1 m altitude grid) through both shipped copies and four call forms",
        text="Every point of the alphabet is executed on the real functions; round trip, positivity, bounded monotonicity, end points, bit-agreement of the two copies and of scalar/array call forms are checked at each. A coverage statement over the alphabet, not a proof between points.",
        note="trusts numpy arithmetic; nothing is claimed between alphabet points",
    ),
    "C12": dict(
        engine="E1-lattice",
        level="exploration",
        design_ref="DESIGN.md §3 C12",
        technique="bounded exhaustive enumeration: full product of batch sizes x spectral indices (incl. exactly 1) x bound pairs x underlying uniform numbers (edges of [0,1] and interior grid) fed through an owned RNG; independent log-space reference CDF",
        text="Every (N, index, bounds, t) tuple of the alphabet is run through Spectra.__call__ with the RNG owned by the harness; bounds (no tolerance), F_ref(logE)=u, monotonicity in u, normalisation product and mono exactness are checked at each point.",
        note="RNG owned through numpy's legacy global functions; reference CDF is independent (expm1 form); nothing is claimed between alphabet points",
    ),
    "C07": dict(
        engine="E1-lattice",
        level="exploration",
        design_ref="DESIGN.md §3 C07",
        technique="bounded exhaustive enumeration: product of tau energies (incl. the exhaustively computed smallest reachable energy of every shipped table) x emergence angles x decay random numbers (closed-interval edges + grid) through EAS.altDec and Taus.__call__ (RNG owned), explicit-vector reference",
        text="Every lattice point is executed on the real code; Lorentz factor, speed, shower energy, decay length (closed form and inverse-survival identity), decay altitude from explicit vectors, monotonicity along lattice lines and mid-point-quadrature convergence of the mean are checked at each.",
        note="documented constants (R=6378.1 km, c, tau0, m_tau) are trusted; nothing is claimed between alphabet points; no limit is proved for the mean",
    ),
    "C18": dict(
        engine="E1-lattice",
        level="exploration",
        design_ref="DESIGN.md §3 C18",
        technique="small-scope exhaustive enumeration: every grid shape (1-4 axes of length 1-3) x dtype x axis names x file format; every node/mid/quarter slice; every non-decreasing row over a 5-value alphabet with every strictly-interior query, singly, in all ordered pairs/triples and concatenated; every node of every shipped table",
        text="All grids/rows/queries of the bounded scope are executed on the real readers, writers, slicer and row interpolator and compared with a boring reference (array equality; (1-t)G[i]+tG[i+1]; piecewise-linear pre-image interval). Shipped tables are validated node by node.",
        note="names with '/' or non-ASCII outside the alphabet; FITS big-endian accepted; one data defect in the unused nuleptonsim table is a recorded known finding",
    ),
    "C05": dict(
        engine="E1-lattice+E2-history",
        level="model_checking",
        design_ref="DESIGN.md §3 C05",
        technique="explicit-state BFS over all call histories (depth 3/4, 7-op alphabet of same-shaped calls with different clamp masks) on one live Taus object, state = hash of all reachable arrays, plus the same sequences un-deduplicated; and exhaustive lattice over every table node, cell/edge mid-point and clamp angle of all three table versions",
        text="Every reachable state of the Taus object under the op alphabet is visited and in each every op is compared bit for bit with a fresh object; every node/mid-point/clamp point is compared with an independent bilinear-in-log10 reference read straight from the HDF5 files.",
        note="state hash is finer than necessary (all arrays reachable from __dict__); hidden state outside the object is covered by the un-deduplicated sequence pass; floor accepted to 1e-5 relative",
    ),
    "C04": dict(
        engine="E1-lattice",
        level="exploration",
        design_ref="DESIGN.md §3 C04",
        technique="bounded exhaustive enumeration: every (log-energy node/mid-point, angle node/mid-point/clamp value) of every table version x per-row u alphabet (all interior node values, mid-points between nodes, grid, edges) through Taus.tau_energy and grid_cdf_sampler; all 3^n assignments of {below,inside,above} angles to batches of n<=4 events with explicit u",
        text="At every lattice point F_ref(z_out)=u is checked against an independent four-corner blend and piecewise-linear CDF read straight from the HDF5 files, plus range, monotonicity in u, clamps, rejection of out-of-range energies and explicit-u == single-event == internal-generator equivalence.",
        note="u restricted to the row's open CDF range with a 2e-15 guard band at the top (the property's own quantifier); nothing is claimed between lattice points",
    ),
    "C15": dict(
        engine="E1-lattice",
        level="exploration",
        design_ref="DESIGN.md §3 C15",
        technique="deviation-bounded exhaustive enumeration: all single-field (quick) and pairwise (thorough) deviations from 6 base variants over per-field value alphabets through create_toml/config_from_toml; full product field x unit spelling x value form x value for the unit clause; band and month alphabets",
        text="Every deviation within the bound is written to a real TOML file and read back and compared field by field (exact; angles to 4 ulp); every (field, unit, form, value) is compared with astropy's own conversion; rejection alphabets must raise.",
        note="None sub-models outside the alphabet; astropy unit conversion is the stated oracle for the unit clause",
    ),
    "C16": dict(
        engine="E1-lattice",
        level="exploration",
        design_ref="DESIGN.md §3 C16",
        technique="exhaustive enumeration of a configuration alphabet (mode x spectrum x cloud x channels, plus non-default values in every header-mapped field) through compute() -> Table.write(fits) -> Table.read / config_from_fits with RNG and clock owned",
        text="Every configuration of the alphabet is simulated, written, read back and reloaded; every column is compared bit for bit, every header value and every flattened configuration key against what a FITS card can carry, and every field config_from_fits reconstructs (observed, not assumed) against the original.",
        note="finite/ASCII/card-sized values only (the property's restriction); astropy's FITS card formatting defines what a float header value can carry",
    ),
    "C02": dict(
        engine="E1-lattice",
        level="exploration",
        design_ref="DESIGN.md §3 C02",
        technique="bounded exhaustive enumeration of the CLOSED unit hypercube (per-dimension alphabet with 0, denormal, 2^-53, 1-2^-53, 1 and an interior grid; 10^4 / 16^4 points) x detector altitude x detector position (poles, date line) x cone/limb/azimuth settings x along-trajectory distances, plus points bisected onto the two thresholds of the validity mask; explicit-vector reference model",
        text="Every lattice point is thrown through RegionGeom.throw and judged against explicit vectors: path-length range and inverse-CDF residual, spot on the sphere at that distance, lat/long ranges, emergence angle from d.n, kept <=> upward and below 42 deg (either-side band at the cuts), non-finite rows never kept, and the ground offset of positions along the trajectory.",
        note="spherical Earth R=6378.1 km; conditioning-aware tolerances (eps*R/sin(theta_S)) for quantities reconstructed from reported lat/long; nothing is claimed between lattice points",
    ),
    "C01": dict(
        engine="E1-lattice",
        level="exploration",
        design_ref="DESIGN.md §3 C01, Appendix B",
        technique="bounded exhaustive enumeration: configuration lattice (altitude x limb angle x cone x azimuth) x interior mid-point lattices of [0,1]^4; pointwise change-of-variables identity with a finite-difference Jacobian of the production outputs, per-coordinate monotone/independent/onto checks, and the real mcintegral on equal-weight lattices (up to 64x128x2x4096 points) against an independent aperture integral",
        text="At every lattice point weight*mcnorm is compared with integrand*|Jacobian| (1e-5), the image of the cube is shown to be the region coordinate by coordinate, and equal-weight quadrature of the real estimator is compared with an independently computed aperture with an a-posteriori error bound.",
        note="interior lattices only (faces are C02's); convergence decided at finite resolution; quadrature clause limited to cones <= 60 deg",
    ),
    "C03": dict(
        engine="E1-lattice",
        level="exploration",
        design_ref="DESIGN.md §3 C03",
        technique="small-scope exhaustive enumeration: thrown batches with 1-4 survivors and a masked-out trajectory x per-event products of trigger / cosine / exit-probability / decay-length / dark-sky alphabets built from the code's own comparisons (value, +-1 ulp) x thresholds x spectrum factors x both classes and methods x all batch permutations; plus compute() over the mode x channel x spectrum cross product with thresholds placed on actual event values",
        text="Every case is executed on the real mcintegral / compute() and compared (1e-12, counts exact) with a scalar-loop reference written from the property text that reads only table columns and configuration; permutation invariance, threshold monotonicity, the 0.826 bound and input immutability are checked as consequences.",
        note="dark-sky astronomy stubbed in the isolated part only (C13 owns it); calculate_snr is used as a public function to turn the stored EFields column into trigger values",
    ),
    "C13": dict(
        engine="E1-lattice",
        level="exploration",
        design_ref="DESIGN.md §3 C13",
        technique="bounded exhaustive enumeration: product of source direction x start date x duration x N x detector position x altitude x limb angle; every N in 1..256 for the time grid; dark-sky thresholds and the limb angle placed on the actual astronomical values of chosen instants (value +- delta) so that every truth assignment and both sides of every cut occur; independent vector path for the nadir angle, sun/moon altitudes and phase",
        text="Every configuration is run through the real RegionGeomToO / ToOEvent; time grid, kept <=> occulted and below min(42 deg, limb limit), the explicit Earth-centre/detector/spot triangle, the full truth table of the dark-sky condition, element-wise evaluation at each event time and the cut's effect on both channels through the real mcintegral are checked.",
        note="astropy supplies the astronomy on both sides (different transformation paths); either-side band of 5e-5 rad at the cuts",
    ),
}
