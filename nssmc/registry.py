"""Per-property registration used to generate MANIFEST.json (tools/gen_manifest.py)."""

HOOK_COMMITS = []

NOT_APPLICABLE = {}

CHECKS = {
    "C19": dict(
        engine="E1-lattice",
        level="exploration",
        design_ref="DESIGN.md §3 C19",
        technique="bounded exhaustive enumeration of an input alphabet (all doubles within ±64/±4096 ulp of every layer boundary, 1 m / 0.1 m altitude grid) through both shipped copies and four call forms",
        text="Every point of the alphabet is executed on the real functions; round trip, positivity, bounded monotonicity, end points, bit-agreement of the two copies and of scalar/array call forms are checked at each. A coverage statement over the alphabet, not a proof between points.",
        note="trusts numpy arithmetic; nothing is claimed between alphabet points",
    ),
}
