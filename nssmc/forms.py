"""Input forms: the same numbers handed to a stage as integer, single-precision or byte-swapped arrays.

A stage is a function of the numbers it is given. `judge` calls it once with float64 arrays holding exactly the values the
narrower arrays hold (the reference) and once with the narrower arrays themselves; the call must not raise, must leave its
inputs alone, and must return the reference values -- bit for bit when every form is an integer or byte-swapped double,
to `tol_single` (relative) when some input is single precision.
"""

from __future__ import annotations

import numpy as np

STANDARD = [("f4",), ("i8",), ("i4",), (">f8",), (">f4",)]


def _tuple(r):
    return tuple(np.asarray(x, dtype=np.float64) for x in (r if isinstance(r, tuple) else (r,)))


def judge(fn, arrays, forms, tol_single=1e-5, what="stage"):
    """fn(*arrays) -> array | tuple of arrays; arrays: sequence of float64 arrays; forms: one dtype string per array
    (None keeps float64). Returns [(clause, expected, observed)]."""
    cast = [np.asarray(a, dtype=np.float64) if f is None else np.asarray(a, dtype=np.float64).astype(f) for a, f in zip(arrays, forms)]
    held = [np.asarray(c, dtype=np.float64).copy() for c in cast]
    try:
        ref = _tuple(fn(*held))
    except Exception:
        return []  # not a valid batch in double precision either: judged by other clauses
    ins = [c.copy() for c in cast]
    try:
        got = _tuple(fn(*cast))
    except Exception as ex:
        return [("input_form_no_exception", f"{what}: values for input dtypes {forms}", f"{type(ex).__name__}: {str(ex)[:100]}")]
    single = any(f is not None and np.dtype(f).kind == "f" and np.dtype(f).itemsize < 8 for f in forms)
    tol = tol_single if single else 0.0
    for k, (g, r) in enumerate(zip(got, ref)):
        if g.shape != r.shape:
            return [("input_form_value", f"{what}: output {k} of shape {r.shape} (input dtypes {forms})", g.shape)]
        with np.errstate(all="ignore"):
            ok = (g == r) | (np.abs(g - r) <= tol * np.abs(r)) | (np.isnan(g) & np.isnan(r))
        if not np.all(ok):
            i = int(np.argmin(ok.ravel()))
            return [("input_form_value", f"{what}: output {k}[{i}] = {r.ravel()[i]!r} (input dtypes {forms}, tol {tol})", repr(g.ravel()[i]))]
    if len(got) != len(ref):
        return [("input_form_value", f"{what}: {len(ref)} outputs", len(got))]
    if any(a.tobytes() != b.tobytes() for a, b in zip(cast, ins)):
        return [("input_form_inputs_unmodified", "unchanged", "changed")]
    return []


def product(n, per_array=("f4", "i8", ">f8"), all_same=("f4", "i8", "i4", ">f8", ">f4")):
    """form tuples for n arrays: every array alone in each narrow form, plus all arrays together in each form"""
    out = []
    for k in range(n):
        for f in per_array:
            out.append(tuple(f if j == k else None for j in range(n)))
    for f in all_same:
        out.append(tuple(f for _ in range(n)))
    return out
