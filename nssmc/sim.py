"""Driving nuspacesim.compute() with all nondeterminism owned (RNG seed, clock, progress bar, dask scheduler)."""

from __future__ import annotations

import contextlib
import math

import numpy as np

from . import own


def make_config(
    mode="Diffuse",
    spectrum="mono",
    cloud="none",
    optical=True,
    radio=True,
    altitude=525.0,
    n=150,
    logE=None,
    det_lat=0.0,
    det_long=0.0,
    extra=None,
):
    from nuspacesim.config import NssConfig

    d = {
        "detector": {
            "initial_position": {"altitude": altitude, "latitude": det_lat, "longitude": det_long},
            "optical": {"enable": optical},
            "radio": {"enable": radio},
        },
        "simulation": {"mode": mode, "thrown_events": n},
    }
    if spectrum == "mono":
        d["simulation"]["spectrum"] = {"id": "monospectrum", "log_nu_energy": 8.0 if logE is None else logE}
    else:
        d["simulation"]["spectrum"] = {"id": "powerspectrum", "index": 2.0, "lower_bound": 7.0, "upper_bound": 11.0}
    if cloud == "none":
        d["simulation"]["cloud_model"] = {"id": "no_cloud"}
    elif cloud == "mono":
        d["simulation"]["cloud_model"] = {"id": "monocloud", "altitude": 3.0}
    else:
        d["simulation"]["cloud_model"] = {"id": "pressure_map", "month": 7}
    if mode == "Target":
        d["simulation"]["target"] = {"source_RA": math.radians(100.0), "source_DEC": math.radians(-20.0), "source_date": "2022-06-02T01:00:00", "source_obst": 86400.0}
    if extra:
        _merge(d, extra)
    return NssConfig(**d)


def _merge(a, b):
    for k, v in b.items():
        if isinstance(v, dict) and isinstance(a.get(k), dict):
            _merge(a[k], v)
        else:
            a[k] = v


@contextlib.contextmanager
def owned(seed=0, scheduler="synchronous", **dask_kw):
    import dask

    with own.frozen_clock(), own.null_progress(), dask.config.set(scheduler=scheduler, **dask_kw):
        np.random.seed(seed)
        yield


def run(cfg, seed=0, scheduler="synchronous", output_file=None, write_stages=False, to_plot=None, **dask_kw):
    import nuspacesim

    with owned(seed, scheduler, **dask_kw), own.quiet():
        if write_stages == "omitted":  # the keyword left out altogether (its default is "disabled")
            return nuspacesim.compute(cfg, output_file=output_file)
        if to_plot is not None:
            return nuspacesim.compute(cfg, output_file=output_file, write_stages=write_stages, to_plot=to_plot)
        return nuspacesim.compute(cfg, output_file=output_file, write_stages=write_stages)


def table_digest(t):
    """byte-level digest of every column and every header value"""
    import hashlib

    from astropy.time import Time

    h = hashlib.sha256()
    for name in t.colnames:
        c = t[name]
        if isinstance(c, Time):  # exact internal representation (an object array of Time would hash pointers)
            h.update(name.encode() + b"time" + np.asarray(c.jd1, dtype="<f8").tobytes() + np.asarray(c.jd2, dtype="<f8").tobytes())
            continue
        a = np.ascontiguousarray(np.asarray(c))
        h.update(name.encode() + str(a.dtype).encode() + str(a.shape).encode() + a.tobytes())
    for k in t.meta:
        h.update(repr((k, t.meta[k])).encode())
    return h.hexdigest()
