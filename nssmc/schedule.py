"""E3 — schedule explorers (stateless DFS with prefix replay).

E3a  ControlledExecutor + queue_get replacement: drives dask's REAL scheduler loop (dask.local.get_async, reached through
     dask.threaded.get / dask.multiprocessing.get with pool=...) and makes "which in-flight submission completes next"
     an explorer choice.  Everything else (graph optimisation, cloudpickle dumps/loads under `processes`, exception
     packing / re-raising, result gathering) is dask's own code.

E3b  Baton scheduler: real threads, exactly one runs at a time; scheduling points are `line` trace events in files
     under a source prefix; choice 0 = keep running, choice j>0 = switch to the j-th other runnable thread (a preemption).
"""

from __future__ import annotations

import concurrent.futures as cf
import contextlib
import sys
import threading


class ReplayDivergence(RuntimeError):
    pass


class Chooser:
    """replays `prefix`, then takes choice 0; records (n_enabled) at every choice point."""

    def __init__(self, prefix=()):
        self.prefix = list(prefix)
        self.choices = []
        self.widths = []

    def choose(self, n):
        i = len(self.choices)
        if i < len(self.prefix):
            c = self.prefix[i]
            if c >= n:
                raise ReplayDivergence(f"choice {c} out of range {n} at point {i}")
        else:
            c = 0
        self.choices.append(c)
        self.widths.append(n)
        return c


# ------------------------------------------------------------------------------------------------ E3a

class ControlledExecutor(cf.Executor):
    def __init__(self, max_workers, chooser):
        self._max_workers = max_workers
        self.chooser = chooser
        self.pending = []
        self.n_submitted = 0
        self.completion_order = []

    def submit(self, fn, *args, **kwargs):
        f = cf.Future()
        self.pending.append((self.n_submitted, f, fn, args, kwargs))
        self.n_submitted += 1
        return f

    def complete_one(self):
        if not self.pending:
            raise RuntimeError("scheduler waits but nothing is in flight (deadlock)")
        c = self.chooser.choose(len(self.pending)) if len(self.pending) > 1 else 0
        sid, f, fn, args, kwargs = self.pending.pop(c)
        self.completion_order.append(sid)
        try:
            r = fn(*args, **kwargs)
        except BaseException as ex:  # dask packs task exceptions itself; this is a failure of the submission
            f.set_exception(ex)
        else:
            f.set_result(r)

    def shutdown(self, wait=True, **kw):
        pass


@contextlib.contextmanager
def controlled_dask(scheduler, workers, chooser, chunksize=1):
    """dask.config context in which .compute() runs under the controlled executor."""
    import dask
    import dask.local

    ex = ControlledExecutor(workers, chooser)
    real_queue_get = dask.local.queue_get

    def queue_get(q):
        while q.empty():
            ex.complete_one()
        return q.get()

    dask.local.queue_get = queue_get
    try:
        with dask.config.set(scheduler=scheduler, pool=ex, num_workers=workers, chunksize=chunksize):
            yield ex
    finally:
        dask.local.queue_get = real_queue_get


def explore_all(run, max_execs=None):
    """run(chooser) -> observation.  DFS over ALL choice sequences.  Returns (n_execs, observations list of
    (choices, obs), capped flag)."""
    out = []
    stack = [[]]
    capped = False
    while stack:
        prefix = stack.pop()
        ch = Chooser(prefix)
        obs = run(ch)
        out.append((list(ch.choices), obs))
        for i in range(len(prefix), len(ch.choices)):
            for alt in range(1, ch.widths[i]):
                stack.append(ch.choices[:i] + [alt])
        if max_execs and len(out) >= max_execs and stack:
            capped = True
            break
    return len(out), out, capped


# ------------------------------------------------------------------------------------------------ E3b

class Baton:
    """Cooperative execution of thread bodies under a chooser. One thread runs at a time."""

    def __init__(self, bodies, chooser, src_prefix, horizon=200000):
        self.bodies = bodies
        self.chooser = chooser
        self.src_prefix = src_prefix
        self.n = len(bodies)
        self.sems = [threading.Semaphore(0) for _ in bodies]
        self.done = [False] * self.n
        self.results = [None] * self.n
        self.errors = [None] * self.n
        self.preemptions = 0
        self.points = 0
        self.switch_at = []  # indices of choice points where a preemptive switch happened
        self.horizon = horizon
        self.main = threading.Semaphore(0)
        self.abort = None

    def _others(self, t):
        return [j for j in range(self.n) if j != t and not self.done[j]]

    def _point(self, t):
        if self.abort:
            raise self.abort
        self.points += 1
        if self.points > self.horizon:
            self.abort = RuntimeError("horizon exceeded")
            raise self.abort
        oth = self._others(t)
        if not oth:
            return
        c = self.chooser.choose(1 + len(oth))
        if c != 0:
            self.preemptions += 1
            self.switch_at.append(len(self.chooser.choices) - 1)
            self.sems[oth[c - 1]].release()
            self.sems[t].acquire()
            if self.abort:
                raise self.abort

    def _tracer(self, t):
        pref = self.src_prefix

        def local(frame, event, arg):
            if event == "line":
                self._point(t)
            return local

        def glob(frame, event, arg):
            if event == "call" and frame.f_code.co_filename.startswith(pref):
                return local
            return None

        return glob

    def _thread(self, t):
        self.sems[t].acquire()
        try:
            if self.abort:
                return
            sys.settrace(self._tracer(t))
            try:
                self.results[t] = self.bodies[t]()
            finally:
                sys.settrace(None)
        except BaseException as ex:
            self.errors[t] = ex
        finally:
            self.done[t] = True
            oth = self._others(t)
            if oth:
                # the finished thread hands over: a free (non-preemptive) choice among the remaining ones
                c = self.chooser.choose(len(oth)) if len(oth) > 1 else 0
                self.sems[oth[c]].release()
            else:
                self.main.release()

    def run(self):
        ths = [threading.Thread(target=self._thread, args=(t,), daemon=True) for t in range(self.n)]
        for th in ths:
            th.start()
        first = self.chooser.choose(self.n) if self.n > 1 else 0
        self.sems[first].release()
        self.main.acquire()
        for th in ths:
            th.join(timeout=30)
        return self.results, self.errors


def explore_preemption_bounded(make_bodies, src_prefix, bound, observe, max_execs=None, first_fixed=False):
    """make_bodies() -> list of callables on FRESH shared state; observe(results, errors) -> hashable observation.
    DFS over all schedules with <= bound preemptions.  Returns dict(execs, outcomes{obs: count}, examples{obs: choices},
    max_points, capped)."""
    outcomes = {}
    examples = {}
    stack = [([], 0)]
    execs = 0
    maxpts = 0
    capped = False
    while stack:
        prefix, _ = stack.pop()
        ch = Chooser(prefix)
        b = Baton(make_bodies(), ch, src_prefix)
        res, errs = b.run()
        execs += 1
        maxpts = max(maxpts, b.points)
        obs = observe(res, errs)
        outcomes[obs] = outcomes.get(obs, 0) + 1
        examples.setdefault(obs, list(ch.choices))
        # preemptions before index i
        sw = set(b.switch_at)
        pre = 0
        for i in range(len(ch.choices)):
            if i >= len(prefix):
                w = ch.widths[i]
                is_sched_point = True
                # index 0 (who starts) and hand-over choices are free; `line` points cost a preemption when switching
                free = (i == 0) or (i in getattr(b, "free_points", ()))
                for alt in range(1, w):
                    cost = 0 if i == 0 else 1
                    if pre + cost <= bound:
                        stack.append((ch.choices[:i] + [alt], pre + cost))
            if i in sw:
                pre += 1
        if max_execs and execs >= max_execs and stack:
            capped = True
            break
    return dict(execs=execs, outcomes=outcomes, examples=examples, max_points=maxpts, capped=capped)


def replay_schedule(make_bodies, src_prefix, choices, observe):
    ch = Chooser(choices)
    b = Baton(make_bodies(), ch, src_prefix)
    res, errs = b.run()
    return observe(res, errs), list(ch.choices)
