"""Process-level histories: what production code did EARLIER in the same Python process must not change what it does now.

Each history is a sequence of "preludes" (other entry points of the package, other configurations, other schedulers, user
changes of numpy's global settings and of the working directory) followed by one fixed PROBE (two seeded full runs, a few
stage calls with owned random numbers, the accept/reject outcome of a few configuration inputs). Every history runs in a
Python process of its own (state cannot leak between histories); the probe's output must equal, byte for byte, the probe
of a process that ran nothing before it. Module-level caches, class attributes shared by instances, settings of numpy /
astropy / dask changed at import or call time, files left in the working directory -- anything that survives a call and
is read by a later one shows as a differing probe.
"""

from __future__ import annotations

import concurrent.futures as cf
import itertools
import json
import os
import subprocess
import sys

ROOT = os.path.dirname(os.path.dirname(os.path.abspath(__file__)))

PRELUDES = {
    "import_all": """
import importlib, pkgutil, nuspacesim
for m in pkgutil.walk_packages(nuspacesim.__path__, 'nuspacesim.'):
    if m.name.endswith('__main__'):
        continue
    try:
        importlib.import_module(m.name)
    except Exception:
        pass
""",
    "target_run": """
from nssmc import sim
sim.run(sim.make_config(mode='Target', spectrum='power', cloud='mono', n=400, altitude=33.0, extra={'simulation': {'cloud_model': {'id': 'monocloud', 'altitude': 11.5}}}), seed=3)  # (a uniform cloud deck at ANOTHER altitude than the probe's)
""",
    "diffuse_other": """
from nssmc import sim
sim.run(sim.make_config(mode='Diffuse', spectrum='power', cloud='mono', n=120, altitude=33.0, logE=None, det_lat=0.4, det_long=2.0, extra={'simulation': {'tau_shower': {'table_version': '1', 'etau_frac': 0.9}, 'cloud_model': {'id': 'pressure_map', 'month': 2}}, 'detector': {'radio': {'low_frequency': 300.0, 'high_frequency': 1000.0}}}), seed=4, scheduler='threads', num_workers=3)
""",
    "config_units": """
import tempfile, os
from astropy import units as u
import nuspacesim.config as nc
for kw in ({'altitude': '33 km'}, {'latitude': '10 deg'}, {'altitude': 5 * u.m}, {'altitude': '3 MHz'}, {'longitude': '2 km'}):
    try:
        nc.Detector.InitialPos(**kw)
    except Exception:
        pass
for kw in ({'low_frequency': '0.1 GHz', 'high_frequency': '1 GHz'}, {'low_frequency': '3 m'}, {'low_frequency': 500.0}):
    try:
        nc.Detector.Radio(**kw)
    except Exception:
        pass
d = tempfile.mkdtemp()
c = nc.NssConfig(title='prelude', simulation={'spectrum': {'id': 'powerspectrum', 'index': 1.0}})
nc.create_toml(os.path.join(d, 'a.toml'), c)
nc.config_from_toml(os.path.join(d, 'a.toml'))
""",
    "grids": """
import tempfile, os, numpy as np
from nuspacesim.utils.grid import NssGrid
from nuspacesim.utils.interp import grid_slice_interp
d = tempfile.mkdtemp()
g = NssGrid(np.arange(12.0).reshape(3, 4), [np.array([0.0, 1.0, 2.0]), np.array([0.0, 1.0, 2.0, 3.0])], ['log_e_nu', 'beta_rad'])
g.write(os.path.join(d, 'g.h5'), format='hdf5'); g.write(os.path.join(d, 'g.fits'), format='fits')
NssGrid.read(os.path.join(d, 'g.h5'), format='hdf5'); NssGrid.read(os.path.join(d, 'g.fits'), format='fits')
grid_slice_interp(g, 0.5, 0)
""",
    "radio_stage": """
import numpy as np, math
from nssmc import own
from nssmc.checks import c20
from nuspacesim.simulation.eas_radio.radio import EASRadio
from nuspacesim.simulation.eas_radio.radio_antenna import calculate_snr
cfg = c20.make_cfg(33.0, 300, 1000, iono=False, nant=3)
with own.RngStub(fn=lambda i, n: np.full(n, 0.6)).installed(), own.quiet(), np.errstate(all='ignore'):
    ef = EASRadio(cfg)(np.array([0.1, 0.2]), np.array([2.0, 5.0]), np.array([20.0, 30.0]), np.array([0.01, 0.02]), np.array([300.0, 300.0]), np.array([1.0, 5.0]))
    calculate_snr(ef, (300.0, 1000.0), 33.0, 3, 1.8)
""",
    "clouds_atm": """
import numpy as np
from nssmc import sim
from nuspacesim.simulation.atmosphere.clouds import CloudTopHeight
from nuspacesim.simulation.atmosphere import pressure as P
from nuspacesim.simulation.eas_optical import atmospheric_models as A
for m in (1, 5, 12):
    c = CloudTopHeight(sim.make_config(extra={'simulation': {'cloud_model': {'id': 'pressure_map', 'month': m}}}))
    c(0.3, 0.4); c(np.array([0.1, -1.0]), np.array([3.0, -2.0]))
P.us_std_atm_pressure_from_altitude(np.arange(0, 100, 7)); A.us_std_atm_altitude_from_pressure(np.array([5.0, 500.0, 0.0]))
A.us_std_atm_density(np.array([0.0, 10.0, 50.0]))
""",
    "failed_run": """
from nssmc import sim, faults
for st in ('taus', 'optical_eas'):
    try:
        with faults.stage_fault(st):
            sim.run(sim.make_config(n=30), seed=2)
    except faults.InjectedFault:
        pass
""",
    "user_settings": """
import numpy as np, os, tempfile, warnings
np.set_printoptions(precision=3, suppress=True)
np.seterr(all='ignore')
warnings.simplefilter('ignore')
os.chdir(tempfile.mkdtemp())
""",
    "plots": """
import matplotlib
matplotlib.use('Agg')
import matplotlib.pyplot as plt
plt.show = lambda *a, **k: None
import nuspacesim
from nuspacesim.utils.plot_function_registry import registry
from nssmc import sim, own
for nm in sorted(registry):
    try:
        with sim.owned(2, 'synchronous'), own.quiet():
            nuspacesim.compute(sim.make_config(n=60, det_lat=-0.9, det_long=2.5, logE=9.5), to_plot=[nm])
    except Exception:
        pass
    plt.close('all')
# ... and the `nuspacesim show-plot` command on a results file (this is what draws the dashboard)
import os, tempfile
from click.testing import CliRunner
import nuspacesim.apps.show_plot as SP
d = tempfile.mkdtemp()
with sim.owned(2, 'synchronous'), own.quiet():
    t = nuspacesim.compute(sim.make_config(n=150, spectrum='power'))
t.write(os.path.join(d, 'r.fits'), format='fits', overwrite=True)
for args in (['--plotall'], ['-p', 'dashboard'], ['-p', 'dashboard']):
    try:
        CliRunner().invoke(SP.show_plot, [os.path.join(d, 'r.fits')] + args)
    except Exception:
        pass
    plt.close('all')
""",
    "kernel_scan": """
import numpy as np, math
from nuspacesim.simulation.eas_optical.cphotang import CphotAng
k = CphotAng(33.0)
with np.errstate(all='ignore'):
    for E in (1e-3, 1.0, 1e3):
        k.run(math.radians(20.0), 2.0, E, 0.1, 0.2, None)
        k.run(math.radians(0.5), 0.0, E, 0.1, 0.2, lambda la, lo: 1.0)
""",
}

PROBE = """
import hashlib, json, math, warnings
import numpy as np
warnings.simplefilter('ignore')
from nssmc import own, sim
out = {}
# two seeded full runs
for name, spec in (('diffuse', dict(mode='Diffuse', spectrum='power', cloud='map', n=80, det_lat=0.3, det_long=-1.0)), ('target', dict(mode='Target', spectrum='mono', cloud='mono', n=300, altitude=33.0))):
    t = sim.run(sim.make_config(**spec), seed=5)
    out['run_' + name] = sim.table_digest(t)
    out['rows_' + name] = len(t)
# stage calls with owned random numbers
from nuspacesim.config import NssConfig
import nuspacesim.config as nc
from nuspacesim.simulation.taus.taus import Taus
from nuspacesim.simulation.spectra.spectra import Spectra
from nuspacesim.simulation.eas_optical.eas import EAS
from nuspacesim.simulation.atmosphere.clouds import CloudTopHeight
from nuspacesim.simulation.atmosphere import pressure as P
def h(*arrs):
    m = hashlib.sha256()
    for a in arrs:
        m.update(np.ascontiguousarray(np.asarray(a, dtype=float)).tobytes())
    return m.hexdigest()[:16]
cfg = NssConfig()
with own.RngStub(fn=lambda i, n: (np.arange(n) + 1.0) / (n + 1.0)).installed(), np.errstate(all='ignore'):
    out['taus'] = h(*Taus(cfg)(np.array([0.0, 0.01, 0.3, 0.74]), np.array([7.0, 8.0, 9.5, 11.0])))
    out['spec'] = h(Spectra(sim.make_config(spectrum='power'))(7)[0])
    out['decay'] = h(*EAS(cfg).altDec(np.array([0.1, 0.5]), np.array([1.0, 0.99]), np.array([1e3, 1e6])))
out['cloud'] = h(CloudTopHeight(sim.make_config(cloud='map'))(np.array([0.1, -1.0, 1.2]), np.array([3.0, -2.0, 0.5])))
from nuspacesim.simulation.eas_optical import atmospheric_models as A
zz = np.array([0.0, 5.0, 11.0, 11.01, 11.03, 20.0, 20.07, 32.2, 47.4, 51.5, 72.0, 72.6, 86.1, 87.17, 100.0, np.inf])
pp = np.array([101325.0, 22632.0, 5474.0, 868.0, 110.0, 66.0, 3.9, 0.37, 1e-3, 0.0])
out['atm'] = h(P.us_std_atm_pressure_from_altitude(zz), P.us_std_atm_altitude_from_pressure(pp), A.us_std_atm_pressure_from_altitude(zz), A.us_std_atm_altitude_from_pressure(pp), A.us_std_atm_density(np.array([0.0, 11.02, 50.0])))
# accept / reject outcomes of configuration inputs
acc = []
for cls, kw in ((nc.Detector.InitialPos, {'altitude': '3 MHz'}), (nc.Detector.InitialPos, {'latitude': '2 km'}), (nc.Detector.Radio, {'low_frequency': '10 m', 'high_frequency': '1 m'}), (nc.Detector.Radio, {'low_frequency': 400.0}), (nc.Detector.Optical, {'telescope_effective_area': '2 m'}), (nc.Detector.InitialPos, {'altitude': '33 km'}), (nc.Detector.Radio, {'low_frequency': '0.1 GHz', 'high_frequency': '1 GHz'})):
    try:
        m = cls(**kw)
        acc.append(['accepted', repr(sorted(m.model_dump().items()))])
    except Exception as ex:
        acc.append(['rejected', type(ex).__name__])
out['config'] = acc
out['errstate'] = None  # (numpy's error state belongs to the user: not compared)
print('PROBE:' + json.dumps(out, sort_keys=True))
"""


def run_history(seq, src=None):
    """run preludes `seq` then the probe in a fresh interpreter; returns the probe's dict (or {'error': ...})"""
    code = "import sys; sys.path.insert(0, %r)\n" % ROOT
    for name in seq:
        code += PRELUDES[name] + "\n"
    code += PROBE
    env = dict(os.environ, PYTHONHASHSEED="0", OMP_NUM_THREADS="1", OPENBLAS_NUM_THREADS="1", PYTHONWARNINGS="ignore")
    r = subprocess.run([sys.executable, "-c", code], capture_output=True, text=True, env=env, cwd=ROOT)
    for line in r.stdout.splitlines():
        if line.startswith("PROBE:"):
            return json.loads(line[6:])
    return {"error": (r.stderr or r.stdout)[-400:]}


def histories(depth):
    names = list(PRELUDES)
    out = [()]
    for d in range(1, depth + 1):
        out += list(itertools.permutations(names, d))
    return out


def explore(depth, workers=8):
    hs = histories(depth)
    with cf.ThreadPoolExecutor(workers) as ex:
        res = list(ex.map(run_history, hs))
    return hs, res


def diff(base, got):
    if "error" in got:
        return [("process_history_probe_completes", "the probe runs", got["error"][-160:])]
    return [("independent_of_process_history", f"{k} = {base[k]!r}"[:160], repr(got.get(k))[:160]) for k in sorted(base) if got.get(k) != base[k]]
