"""E4 — crash-point and fault enumeration around nuspacesim.compute().

* write boundaries: results_table.AstropyTable is replaced (from the harness side) by a Table subclass whose write() calls
  the real write and then reports "boundary k reached"; a crash at boundary k is a REAL process death (os._exit in a forked
  child), so what is on disk is what a dead process leaves.
* stage faults: the stage callables compute() resolves from its module namespace are wrapped to raise on a chosen call.
"""

from __future__ import annotations

import contextlib
import os


class InjectedFault(RuntimeError):
    pass


class InjectedInterrupt(KeyboardInterrupt):
    """a failure that is NOT an Exception subclass (Ctrl-C, or a worker being torn down): `except Exception` does not see it"""


FAULT_CLASSES = {"error": InjectedFault, "interrupt": InjectedInterrupt}


@contextlib.contextmanager
def write_spy(on_boundary):
    """on_boundary(k, table) is called after the k-th completed write (k = 1, 2, ...)."""
    import astropy.table

    import nuspacesim.results_table as rt

    real = rt.AstropyTable
    counter = {"k": 0}

    class SpyTable(astropy.table.Table):
        def write(self, *a, **kw):
            r = super().write(*a, **kw)
            counter["k"] += 1
            on_boundary(counter["k"], self)
            return r

    rt.AstropyTable = SpyTable
    try:
        yield counter
    finally:
        rt.AstropyTable = real


STAGES = ["geometry", "spot", "spectrum", "taus", "decay", "optical_eas", "optical_integral", "radio_eas", "snr", "radio_integral"]


INNER_STAGES = ["geometry", "spectrum", "taus", "optical_eas", "radio_eas"]


@contextlib.contextmanager
def stage_fault(stage, kind="error", depth="entry"):
    """make the given stage raise InjectedFault / InjectedInterrupt when compute() reaches it (None: no fault).
    depth "entry": the stage's callable itself is replaced; depth "inner" (INNER_STAGES only): something the stage's REAL,
    decorated callable calls raises, so that the failure passes through the result-store / plot decorators."""
    import importlib
    import sys

    importlib.import_module("nuspacesim.compute")
    C = sys.modules["nuspacesim.compute"]  # (the package attribute `nuspacesim.compute` is the function)

    saved = {}

    def patch(name, obj):
        saved[name] = getattr(C, name)
        setattr(C, name, obj)

    Exc = FAULT_CLASSES[kind]

    def raising(*a, **k):
        raise Exc(f"injected failure in stage {stage}")

    if stage is None:
        yield
        return
    try:
        if depth == "inner":
            import importlib as _il

            if stage == "geometry":
                for cname in ("RegionGeom", "RegionGeomToO"):
                    patch(cname, type(cname + "Faulty", (getattr(C, cname),), {"throw": raising}))
            elif stage == "spectrum":
                sm = _il.import_module("nuspacesim.simulation.spectra.spectra")
                real_es = sm.energy_spectra
                sm.energy_spectra = raising
                saved["__restore_spectra__"] = (sm, real_es)
            elif stage == "taus":
                patch("Taus", type("TausFaulty", (C.Taus,), {"tau_exit_prob": raising}))
            elif stage == "optical_eas":
                base = C.EAS

                def _init(self, *a, _b=base, **k):
                    _b.__init__(self, *a, **k)
                    self.CphotAng = raising

                patch("EAS", type("EASFaulty", (base,), {"__init__": _init}))
            elif stage == "radio_eas":
                patch("EASRadio", type("EASRadioFaulty", (C.EASRadio,), {"get_decay_view": raising}))
            else:
                raise ValueError(stage)
            yield
            return
        if stage in ("geometry", "spot", "optical_integral", "radio_integral"):
            for cname in ("RegionGeom", "RegionGeomToO"):
                base = getattr(C, cname)
                ns = {}
                if stage == "geometry":
                    ns["__call__"] = raising
                elif stage == "spot":
                    ns["find_lat_long_along_traj"] = raising
                else:
                    want = "Optical" if stage == "optical_integral" else "Radio"

                    def mcintegral(self, *a, _base=base, _want=want, **k):
                        # diffuse mcintegral also receives method= through **kwargs
                        if k.get("method") == _want:
                            raise Exc(f"injected failure in stage {stage}")
                        return _base.mcintegral(self, *a, **k)

                    ns["mcintegral"] = mcintegral
                patch(cname, type(cname + "Faulty", (base,), ns))
        elif stage == "spectrum":
            patch("Spectra", type("SpectraFaulty", (C.Spectra,), {"__call__": raising}))
        elif stage == "taus":
            patch("Taus", type("TausFaulty", (C.Taus,), {"__call__": raising}))
        elif stage == "decay":
            patch("EAS", type("EASFaulty", (C.EAS,), {"altDec": raising}))
        elif stage == "optical_eas":
            patch("EAS", type("EASFaulty", (C.EAS,), {"__call__": raising}))
        elif stage == "radio_eas":
            patch("EASRadio", type("EASRadioFaulty", (C.EASRadio,), {"__call__": raising}))
        elif stage == "snr":
            patch("calculate_snr", raising)
        else:
            raise ValueError(stage)
        yield
    finally:
        for n, o in saved.items():
            if n == "__restore_spectra__":
                o[0].energy_spectra = o[1]
            else:
                setattr(C, n, o)


def in_child(fn):
    """run fn() in a forked child; returns the child's exit status (os._exit code)"""
    pid = os.fork()
    if pid == 0:
        code = 0
        try:
            fn()
        except SystemExit as e:
            code = int(e.code or 0)
        except BaseException:
            code = 70
        finally:
            os._exit(code)
    _, st = os.waitpid(pid, 0)
    return os.waitstatus_to_exitcode(st)
