"""E2 — explicit-state breadth-first search over call histories on one live object.

A state is represented by the shortest history (list of op indices) that reaches it; build(history) makes a
fresh real object and replays the calls (live numpy/astropy/h5py objects do not deep-copy reliably).
States are de-duplicated on canon(obj), a hash of every array / scalar reachable from the object's __dict__
(finer than necessary, never coarser: merged states have identical mutable content, hence identical futures).
In every state every op of the alphabet is executed and its output compared with the same op on a fresh object.
"""

from __future__ import annotations

import collections
import hashlib

import numpy as np


def _feed(h, x, depth, seen):
    if depth > 6:
        h.update(b"<deep>")
        return
    if isinstance(x, np.ndarray):
        h.update(str(x.dtype).encode() + str(x.shape).encode())
        h.update(np.ascontiguousarray(x).tobytes())
        return
    if isinstance(x, (bool, int, float, complex, str, bytes, type(None), np.generic)):
        h.update(repr(x).encode())
        return
    if isinstance(x, (list, tuple)):
        h.update(b"[")
        for v in x:
            _feed(h, v, depth + 1, seen)
        h.update(b"]")
        return
    if isinstance(x, dict):
        h.update(b"{")
        for k in sorted(x, key=repr):
            h.update(repr(k).encode())
            _feed(h, x[k], depth + 1, seen)
        h.update(b"}")
        return
    if id(x) in seen:
        h.update(b"<cycle>")
        return
    seen.add(id(x))
    if hasattr(x, "model_dump_json"):
        h.update(x.model_dump_json().encode())
        return
    # NssGrid-like
    if hasattr(x, "axes") and hasattr(x, "axis_names") and hasattr(x, "data"):
        h.update(b"grid")
        _feed(h, np.asarray(x.data), depth + 1, seen)
        _feed(h, [np.asarray(a) for a in x.axes], depth + 1, seen)
        _feed(h, list(x.axis_names), depth + 1, seen)
        return
    if callable(x) and not hasattr(x, "__dict__"):
        h.update(getattr(x, "__qualname__", repr(type(x))).encode())
        return
    d = getattr(x, "__dict__", None)
    if d is not None:
        h.update(type(x).__qualname__.encode())
        _feed(h, {k: v for k, v in d.items() if not k.startswith("__")}, depth + 1, seen)
        return
    h.update(type(x).__qualname__.encode())


def canon(obj, extra=None):
    h = hashlib.sha256()
    _feed(h, obj, 0, set())
    if extra is not None:
        _feed(h, extra, 0, set())
    return h.hexdigest()


def out_bytes(out):
    """canonical bytes of an op's output (tuple of arrays / scalars)"""
    h = hashlib.sha256()
    _feed(h, out, 0, set())
    return h.hexdigest()


class Result:
    def __init__(self):
        self.states = 0
        self.transitions = 0
        self.max_depth = 0
        self.violations = []  # (history, op_index, expected_digest, observed_digest)
        self.histories_checked = 0


def bfs(make, ops, depth, extra_state=None):
    """make() -> fresh object; ops: list of callables op(obj) -> output. Returns Result.

    Invariant checked on every transition: op output in state s == op output on a fresh object.
    """
    fresh = []
    for op in ops:
        fresh.append(out_bytes(op(make())))
    res = Result()

    def build(hist):
        o = make()
        for k in hist:
            ops[k](o)
        return o

    s0 = canon(make(), extra_state() if extra_state else None)
    seen = {s0: []}
    frontier = collections.deque([[]])
    while frontier:
        hist = frontier.popleft()
        res.max_depth = max(res.max_depth, len(hist))
        for k, op in enumerate(ops):
            o = build(hist)
            try:
                got = out_bytes(op(o))
            except Exception as ex:  # an op that works on a fresh object must work in every state
                got = f"raised {type(ex).__name__}: {ex}"
            res.transitions += 1
            res.histories_checked += 1
            if got != fresh[k]:
                res.violations.append((list(hist), k, fresh[k], got))
            c = canon(o, extra_state() if extra_state else None)
            if c not in seen:
                seen[c] = hist + [k]
                if len(hist) + 1 < depth:
                    frontier.append(hist + [k])
    res.states = len(seen)
    res.state_histories = seen
    return res


def replay_history(make, ops, hist, k):
    """re-execute one history + op and compare with fresh; returns (equal, fresh_digest, got_digest)"""
    f = out_bytes(ops[k](make()))
    o = make()
    for j in hist:
        ops[j](o)
    try:
        got = out_bytes(ops[k](o))
    except Exception as ex:
        got = f"raised {type(ex).__name__}: {ex}"
    return got == f, f, got


def all_sequences(make, ops, depth):
    """Exhaustive, NOT de-duplicated: every op sequence of length `depth` (hence every shorter prefix) on one fresh
    object each; every step's output is compared with the op on a fresh object.  Guards against hidden state that
    canon() cannot see (module globals, caches outside the object).  Returns (n_sequences, n_steps, violations)."""
    import itertools

    fresh = [out_bytes(op(make())) for op in ops]
    viol = []
    nseq = nstep = 0
    for seq in itertools.product(range(len(ops)), repeat=depth):
        o = make()
        nseq += 1
        for pos, k in enumerate(seq):
            try:
                got = out_bytes(ops[k](o))
            except Exception as ex:
                got = f"raised {type(ex).__name__}: {ex}"
            nstep += 1
            if got != fresh[k]:
                viol.append((list(seq[:pos]), k, fresh[k], got))
                break
    return nseq, nstep, viol
