"""nssmc — bounded exhaustive exploration (model checking) harness for nuSpaceSim."""
