import argparse
import importlib
import os
import sys
import traceback

from . import core


def main():
    ap = argparse.ArgumentParser(prog="check")
    ap.add_argument("pid")
    ap.add_argument("--tier", default=os.environ.get("VERIF_TIER", "quick"), choices=["quick", "thorough"])
    ap.add_argument("--replay", default=None)
    ap.add_argument("--candidates-only", action="store_true", help="(internal) run the exploration, print the clauses of its unlisted candidates as JSON, confirm nothing, write nothing")
    a = ap.parse_args()
    pid = a.pid.upper()
    try:
        seed = int(os.environ.get("VERIF_SEED", "0"))
    except ValueError:
        seed = 0
    mod = importlib.import_module(f"nssmc.checks.{pid.lower()}")
    if a.replay:
        sys.exit(core.run_replay(mod, a.replay))
    ctx = core.Ctx(pid, a.tier, seed, mod)
    if a.candidates_only:
        import json

        print("CANDIDATES:" + json.dumps(sorted({c for c, _, _ in core.replay_explorer(mod, {"tier": a.tier, "seed": seed})})))
        sys.exit(0)
    try:
        mod.run(ctx)
    except Exception as ex:
        tb = traceback.format_exc()
        traceback.print_exc()
        if core.raised_in_production(tb):
            # an exception that escaped from PRODUCTION code aborted the exploration: that is a candidate violation (the
            # property quantifies over inputs on which the code must work), confirmed by re-running the explorer
            ctx.violation("production_code_raised_during_exploration", {"kind": "__explorer__", "tier": a.tier, "seed": seed}, "no exception from production code", f"{type(ex).__name__}: {str(ex)[:160]}")
            ctx.exhaustive = False
            ctx.note("exploration aborted by an exception from production code: " + tb[-400:])
            sys.exit(ctx.finish())
        print(f"HARNESS-ERROR property={pid} explorer raised")
        try:
            ctx.note("explorer raised: " + traceback.format_exc()[-600:])
            ctx.exhaustive = False
            rc = ctx.finish()
        except Exception:
            traceback.print_exc()
            rc = 2
        sys.exit(rc if rc == 1 else 2)
    sys.exit(ctx.finish())


if __name__ == "__main__":  # (spawned dask worker processes re-import this module as __mp_main__)
    main()
