"""C06 — Cherenkov photon yield conforms to the shower model at working precision (E1 lattice, three evaluations)."""

import itertools
import math
import os

import numpy as np

from .. import par
from ..ref import cphot_ref as CR
from ..zsteps_shim import build as zb

PID = "C06"
LEVEL = "exploration"
RULE = (
    "full product of alphabets: emergence angle {0, 0.5, 1-, 1, 1+, 2 ... 40, 42 deg} x decay altitude {0 ... 20 km incl. "
    "the grammage/ozone/aerosol break points 5.35, 11 and their neighbours, 20-1ulp} x shower energy {10^-5..10^4 x 100 PeV "
    "in half decades plus exact powers of ten and their float32 neighbours}. Each point is evaluated three times: the "
    "production kernel (float32, no hook; zsteps.cpp compiled from the working tree), the same kernel under "
    "NUSPACESIM_VERIF_DTYPE=float64, and an independent float64 re-statement of the physical model; the property's "
    "tolerances are applied to production-vs-reference, the float64-hook-vs-reference distance is reported as the "
    "model-binding figure. Distinct by (angle class <1/=1/>1 deg, altitude layer, energy decade)."
)
ASSUMPTIONS = [
    "the reference (nssmc/ref/cphot_ref.py) is written from the model description by someone who has read the kernel; the float64-hook comparison bounds how far the two differ, it cannot show both are the physics",
    "the shipped zsteps .so is judged only through the binding check (bit-identical to the source build when the source is unmodified); the checks decide the C++ source in the working tree",
    "between lattice points nothing is claimed",
]


def beta_alphabet(tier):
    one = math.radians(1.0)
    full = [0.0, math.radians(0.5), math.radians(0.95), math.radians(0.999), float(np.nextafter(one, 0)), one, float(np.nextafter(one, 1)), *[math.radians(x) for x in (2, 3, 5, 7.5, 10, 15, 20, 25, 30, 35, 40, 42)]]
    if tier == "quick":
        return [full[i] for i in (0, 2, 3, 4, 5, 6, 7, 9, 11, 13, 15, 17, 18)]
    return full


def alt_alphabet(tier):
    full = [0.0, 0.05, 0.5, 1.0, 2.0, 4.0, 5.3, 5.35, 5.4, 8.0, 10.9, 11.0, 11.1, 14.0, 17.0, float(np.nextafter(20.0, 0)), 20.0]
    if tier == "quick":
        return [full[i] for i in (0, 2, 4, 6, 7, 9, 11, 12, 14, 15, 16)]
    return full


def energy_alphabet(tier):
    if tier == "quick":
        base = [10.0**k for k in (-5, -4, -2.5, -1, 0, 0.5, 2, 4)]
        k10 = [1e3]
    else:
        base = [10.0**k for k in np.arange(-5, 4.01, 0.5)]
        k10 = [1e3, 1e5, 1e8, 1e10, 1e12]
    extra = []
    for e in k10:  # shower energies (GeV) at exact powers of ten and their float32 neighbours
        f = np.float32(e)
        for v in (np.nextafter(f, np.float32(0)), f, np.nextafter(f, np.float32(np.inf))):
            extra.append(float(v) / 1e8)
    return sorted(set(base + extra))


_K = {}
STEP_ARGS = set()


def kernels():
    import nuspacesim.simulation.eas_optical.cphotang as cp

    if not _K:
        def spy(z, sinThetView, RadE, zMaxZ, zmax, dL, pi):
            STEP_ARGS.add((round(float(RadE), 2), float(zMaxZ), float(zmax), round(float(dL), 6)))
            return zb.zsteps(z, sinThetView, RadE, zMaxZ, zmax, dL, pi)

        cp.cppzsteps = spy  # the C++ stepping compiled from the working-tree source
        _K["32"] = cp.CphotAng(525.0)
        os.environ["NUSPACESIM_VERIF_DTYPE"] = "float64"
        try:
            _K["64"] = cp.CphotAng(525.0)
        finally:
            del os.environ["NUSPACESIM_VERIF_DTYPE"]
    return _K["32"], _K["64"]


def evaluate(ev):
    b, a, E = ev
    k32, k64 = kernels()
    with np.errstate(all="ignore"):
        try:
            d32, a32 = k32.run(np.float64(b), np.float64(a), np.float64(E), 0.0, 0.0, None)
        except Exception as ex:
            d32, a32 = float("nan"), float("nan")
        try:
            d64, a64 = k64.run(np.float64(b), np.float64(a), np.float64(E), 0.0, 0.0, None)
        except Exception:
            d64, a64 = float("nan"), float("nan")
        dr, ar = CR.shower(b, a, E)
    return (float(d32), float(a32), float(d64), float(a64), float(dr), float(ar), np.float64(d32).tobytes() + np.float32(a32).tobytes(), sorted(STEP_ARGS))


def _chunk(evs):
    return [evaluate(e) for e in evs]


def evaluate_all(evs):
    n = 16
    chunks = [evs[i::n] for i in range(n)]
    res = par.pmap(_chunk, chunks)
    out = [None] * len(evs)
    for ci, r in enumerate(res):
        for j, v in enumerate(r):
            out[ci + j * n] = v
    return out


def judge_event(ev, r):
    d32, a32, d64, a64, dr, ar, _, step_args = r
    out = []
    for sa in step_args:
        if tuple(sa) != (6378.14, 65.0, 525.0, 0.1):
            out.append(("stepping_parameters", "(R=6378.14, top=65 km, orbit=525 km, dL=0.1 km)", list(sa)))
    if not (math.isfinite(d32) and math.isfinite(a32) and d32 >= 0 and a32 >= 0):
        out.append(("finite_nonnegative", ">= 0 and finite", [d32, a32]))
        return out
    if not (abs(d32 - dr) <= max(0.10 * dr, 0.1)):
        out.append(("density_within_10_percent", dr, d32))
    if ar > 0 and not (abs(a32 - ar) <= 0.01 * ar):
        out.append(("angle_within_1_percent", ar, a32))
    if ar == 0 and a32 != 0:
        out.append(("angle_within_1_percent", ar, a32))
    return out


def judge_batch_call():
    import dask

    from .. import own

    k32, _ = kernels()
    n = 130
    i = np.arange(n)
    b = np.radians(1.0 + 40.0 * ((i * 0.6180339887498949) % 1.0))
    a = 19.0 * ((i * 0.7548776662466927) % 1.0)
    E = 10.0 ** (-4 + 7 * ((i * 0.5698402909980532) % 1.0))
    la = 0.01 * i
    lo = -0.02 * i
    # degenerate compositions: bit-identical copies of an event (adjacent, and across the 100-event partition boundary),
    # events that tie in the angle only, and events on ONE track with ascending energy
    for x in (b, a, E, la, lo):
        x[5] = x[4]
        x[120] = x[7]
    b[60] = b[30]
    b[41], a[41] = b[40], a[40]
    E[40], E[41] = 1.0, 10.0
    with own.null_progress(), dask.config.set(scheduler="synchronous"), np.errstate(all="ignore"):
        try:
            D, C = k32(b.copy(), a.copy(), E.copy(), la.copy(), lo.copy(), None)
        except Exception as ex:
            return [("batch_call_event_by_event", "values", f"{type(ex).__name__}: {str(ex)[:100]}")]
        out = []
        if len(D) != n or len(C) != n:
            return [("batch_call_event_by_event", n, [len(D), len(C)])]
        for j in range(n):
            # one at a time: on a fresh kernel object (nothing an earlier event left behind can reach this one)
            d, c = type(k32)(525.0).run(b[j], a[j], E[j], la[j], lo[j], None)
            if (np.float64(d).tobytes(), np.float32(c).tobytes()) != (np.float64(D[j]).tobytes(), np.float32(C[j]).tobytes()):
                out.append(("batch_call_event_by_event", f"event {j}: {float(d)}, {float(c)}", [float(D[j]), float(C[j])]))
                break
    return out


def zsteps_conformance():
    """the C++ stepping (source build) against the reference stepping, step by step; and against the shipped .so"""
    out = []
    n = 0
    try:
        from nuspacesim.simulation.eas_optical.zsteps import zsteps as shipped
    except Exception:
        shipped = None
    pinned = zb.source_is_pinned()
    for z, bdeg in itertools.product([0.0, 0.5, 5.35, 11.0, 19.99, 20.0, 64.95], [1.0, 5.0, 20.0, 42.0]):
        view = math.asin(CR.R * math.cos(math.radians(bdeg)) / (CR.R + CR.ORBIT))
        a, b = zb.zsteps(z, math.sin(view), CR.R, CR.TOP, CR.ORBIT, CR.DL, math.pi)
        zs, dz = CR.steps(z, math.sin(view))
        n += 1
        if len(a) != len(zs) or not (np.allclose(a, zs, rtol=0, atol=1e-9) and np.allclose(b, dz, rtol=0, atol=1e-9)):
            out.append(("stepping_matches_model", f"z={z} beta={bdeg}: {len(zs)} steps", f"{len(a)} steps / values differ"))
        if shipped is not None and pinned:
            args = (np.float64(z), np.float32(math.sin(view)), np.float32(CR.R), np.float32(CR.TOP), np.float32(CR.ORBIT), np.float32(CR.DL), np.float32(3.1415926))
            s1 = shipped(*args)
            s2 = zb.zsteps(*args)
            if not (s1[0].tobytes() == s2[0].tobytes() and s1[1].tobytes() == s2[1].tobytes()):
                out.append(("shipped_binary_matches_source", "bit-identical", f"z={z} beta={bdeg} differs"))
    return out, n, pinned


def judge_forms(f):
    """input forms for the batch entry point: (angle, altitude, energy, latitude, longitude) as narrower arrays"""
    import dask

    from nuspacesim.simulation.atmosphere.clouds import CloudTopHeight
    from nuspacesim.simulation.eas_optical.cphotang import CphotAng

    from .. import forms, own, sim

    cols = [np.array([math.radians(5.0), math.radians(20.0), 0.0, 0.5]), np.array([2.0, 8.0, 0.0, 4.0]), np.array([1.0, 10.0, 100.0, 3.0]), np.array([0.0, 1.0, -1.0, 0.0]), np.array([0.0, 2.0, -3.0, 1.0])]
    cl = CloudTopHeight(sim.make_config(cloud="map"))

    def kcall(*x):
        with own.null_progress(), dask.config.set(scheduler="synchronous"), np.errstate(all="ignore"):
            return CphotAng(525.0)(*x, cl)

    return forms.judge(kcall, cols, tuple(f), what="CphotAng.__call__")


LIFE_ALTS = (525.0, 33.0, 400.0)
LIFE_EVENTS = [(5.0, 0.0, 1.0), (20.0, 2.0, 100.0), (0.5, 8.0, 1.0)]


def judge_lifecycle(a1, a2, how):
    """a kernel built for altitude a1, moved to a2 by assigning its public detector_altitude, then (how) used directly /
    deep-copied / pickled and restored: every event as a kernel freshly built for a2 gives it, bit for bit"""
    import copy
    import pickle

    import nuspacesim.simulation.eas_optical.cphotang as cp

    k = cp.CphotAng(a1)
    k.detector_altitude = a2
    if how == "deepcopy":
        k = copy.deepcopy(k)
    elif how == "pickle":
        k = pickle.loads(pickle.dumps(k))
    fresh = cp.CphotAng(a2)
    out = []
    for bd, a, E in LIFE_EVENTS:
        with np.errstate(all="ignore"):
            r = k.run(np.float64(math.radians(bd)), np.float64(a), np.float64(E), 0.0, 0.0, None)
            f = fresh.run(np.float64(math.radians(bd)), np.float64(a), np.float64(E), 0.0, 0.0, None)
        if (np.float64(r[0]).tobytes(), np.float32(r[1]).tobytes()) != (np.float64(f[0]).tobytes(), np.float32(f[1]).tobytes()):
            out.append(("reconfigured_kernel_equals_fresh_kernel", [float(f[0]), float(f[1])], [float(r[0]), float(r[1])]))
            break
    return out


def run(ctx):
    from .. import forms as _forms

    for f in _forms.product(5, per_array=("f4", "i8")):
        ctx.tick(4, ("forms", f))
        for c, e, o in judge_forms(f):
            ctx.violation(c, {"kind": "forms", "forms": list(f)}, e, o)
    tier = ctx.tier
    bs, als, Es = beta_alphabet(tier), alt_alphabet(tier), energy_alphabet(tier)
    evs = list(itertools.product(bs, als, Es))
    ctx.cov["alphabet"] = {"beta": len(bs), "altitude": len(als), "energy": len(Es), "events": len(evs)}
    res = evaluate_all(evs)
    ctx.tick(3 * len(evs))
    one = math.radians(1.0)
    rel32, rel64, ang64 = [], [], []
    by_key = {}
    for ev, r in zip(evs, res):
        b, a, E = ev
        ctx.sigs.add((0 if b < one else (1 if b == one else 2), int(np.searchsorted([5.35, 11.0, 20.0], a, side="right")), int(math.floor(math.log10(E)))))
        for c, e, o in judge_event(ev, r):
            ctx.violation(c, {"kind": "event", "ev": list(ev)}, e, o)
        d32, a32, d64, a64, dr, ar, raw, _sa = r
        if dr > 0 and math.isfinite(d32):
            rel32.append(abs(d32 - dr) / dr)
        if dr > 0 and math.isfinite(d64):
            rel64.append(abs(d64 - dr) / dr)
            if ar > 0:
                ang64.append(abs(a64 - ar) / ar)
        by_key[(a, E, b)] = raw
    med = float(np.median(rel32)) if rel32 else 0.0
    ctx.cov["production_vs_reference"] = {"median_relative_density_difference": med, "worst_relative_density_difference": float(max(rel32)) if rel32 else None, "events_compared": len(rel32)}
    ctx.cov["model_binding_float64_hook_vs_reference"] = {"median_relative_density_difference": float(np.median(rel64)) if rel64 else None, "worst_relative_density_difference": float(max(rel64)) if rel64 else None, "worst_relative_angle_difference": float(max(ang64)) if ang64 else None}
    if not (med <= 0.005):
        ctx.violation("density_median_within_0.5_percent", {"kind": "median", "tier": tier}, "<= 0.005", med)
    # beta < 1 deg is treated as 1 deg: bit-identical results
    nb = 0
    for (a, E) in itertools.product(als, Es):
        ref = by_key.get((a, E, one))
        for b in bs:
            if b < one and ref is not None:
                nb += 1
                if by_key[(a, E, b)] != ref:
                    ctx.violation("below_1_deg_treated_as_1_deg", {"kind": "lowbeta", "ev": [b, a, E]}, "bit-identical to beta = 1 deg", "differs")
    ctx.tick(nb)
    # the same clause for detectors off the 525 km reference orbit (the altitude rescaling must use the clamped angle too)
    import nuspacesim.simulation.eas_optical.cphotang as cp

    kernels()
    # the density at a detector off the reference orbit, against the reference model for THAT altitude
    for h in (33.0, 400.0, 1000.0):
        kh = cp.CphotAng(h)
        for bd, a, E in itertools.product([5.0, 20.0], [0.0, 2.0, 8.0], [1.0, 100.0]):
            with np.errstate(all="ignore"):
                r = kh.run(np.float64(math.radians(bd)), np.float64(a), np.float64(E), 0.0, 0.0, None)
            dr, ar = CR.shower(math.radians(bd), a, E, det_alt=h)
            ctx.tick(1, ("density_at_detector", h))
            if not (abs(float(r[0]) - dr) <= max(0.10 * dr, 0.1)):
                ctx.violation("density_within_10_percent", {"kind": "det_event", "h": h, "ev": [math.radians(bd), a, E]}, dr, float(r[0]))
    for h in (33.0, 1000.0):
        kh = cp.CphotAng(h)
        for a, E in itertools.product([0.0, 2.0, 11.0], [1e-2, 1.0]):
            with np.errstate(all="ignore"):
                ref = kh.run(np.float64(one), np.float64(a), np.float64(E), 0.0, 0.0, None)
                for b in [x for x in bs if x < one]:
                    r = kh.run(np.float64(b), np.float64(a), np.float64(E), 0.0, 0.0, None)
                    ctx.tick(1, ("lowbeta_det", h))
                    if (np.float64(r[0]).tobytes(), np.float32(r[1]).tobytes()) != (np.float64(ref[0]).tobytes(), np.float32(ref[1]).tobytes()):
                        ctx.violation("below_1_deg_treated_as_1_deg", {"kind": "lowbeta_det", "h": h, "ev": [b, a, E]}, [float(ref[0]), float(ref[1])], [float(r[0]), float(r[1])])
    # object life cycle: every ordered pair of altitudes x {used directly, deep-copied, pickled and restored}
    for a1, a2 in itertools.product(LIFE_ALTS, repeat=2):
        for how in ("direct", "deepcopy", "pickle"):
            ctx.tick(len(LIFE_EVENTS), ("lifecycle", a1 == a2, a1 == 525.0, a2 == 525.0, how))
            for c, e, o in judge_lifecycle(a1, a2, how):
                ctx.violation(c, {"kind": "lifecycle", "a1": a1, "a2": a2, "how": how}, e, o)
    # event by event also through the batch entry point (more than one 100-event partition, unsorted order)
    for c, e, o in judge_batch_call():
        ctx.violation(c, {"kind": "batch"}, e, o)
    ctx.tick(130, ("batch_call",))
    v, n, pinned = zsteps_conformance()
    ctx.tick(n, ("zsteps", pinned))
    ctx.cov["zsteps"] = {"cases": n, "source_is_pinned": pinned, "source_sha256": zb.source_sha()}
    for c, e, o in v:
        ctx.violation(c, {"kind": "zsteps"}, e, o)
    k = int(ctx.rng.integers(len(evs)))
    ctx.sample({"(beta_rad, altitude_km, E_100PeV)": list(evs[k]), "production_f32": res[k][:2], "float64_hook": res[k][2:4], "reference": res[k][4:6]})
    ctx.sample({"(beta_rad, altitude_km, E_100PeV)": list(evs[0]), "production_f32": res[0][:2], "reference": res[0][4:6]})


def replay(case):
    k = case["kind"]
    if k == "forms":
        return judge_forms(case["forms"])
    if k == "event":
        ev = tuple(case["ev"])
        return judge_event(ev, evaluate(ev))
    if k == "lowbeta":
        b, a, E = case["ev"]
        r1 = evaluate((b, a, E))
        r2 = evaluate((math.radians(1.0), a, E))
        return [] if r1[6] == r2[6] else [("below_1_deg_treated_as_1_deg", "bit-identical to beta = 1 deg", "differs")]
    if k == "det_event":
        import nuspacesim.simulation.eas_optical.cphotang as cp

        kernels()
        b, a, E = case["ev"]
        with np.errstate(all="ignore"):
            r = cp.CphotAng(case["h"]).run(np.float64(b), np.float64(a), np.float64(E), 0.0, 0.0, None)
        dr, _ = CR.shower(b, a, E, det_alt=case["h"])
        return [] if abs(float(r[0]) - dr) <= max(0.10 * dr, 0.1) else [("density_within_10_percent", dr, float(r[0]))]
    if k == "lowbeta_det":
        import nuspacesim.simulation.eas_optical.cphotang as cp

        kernels()
        kh = cp.CphotAng(case["h"])
        b, a, E = case["ev"]
        with np.errstate(all="ignore"):
            ref = kh.run(np.float64(math.radians(1.0)), np.float64(a), np.float64(E), 0.0, 0.0, None)
            r = kh.run(np.float64(b), np.float64(a), np.float64(E), 0.0, 0.0, None)
        same = (np.float64(r[0]).tobytes(), np.float32(r[1]).tobytes()) == (np.float64(ref[0]).tobytes(), np.float32(ref[1]).tobytes())
        return [] if same else [("below_1_deg_treated_as_1_deg", [float(ref[0]), float(ref[1])], [float(r[0]), float(r[1])])]
    if k == "median":
        tier = case["tier"]
        evs = list(itertools.product(beta_alphabet(tier), alt_alphabet(tier), energy_alphabet(tier)))
        res = evaluate_all(evs)
        rel = [abs(r[0] - r[4]) / r[4] for r in res if r[4] > 0 and math.isfinite(r[0])]
        med = float(np.median(rel))
        return [] if med <= 0.005 else [("density_median_within_0.5_percent", "<= 0.005", med)]
    if k == "zsteps":
        return zsteps_conformance()[0]
    if k == "lifecycle":
        return judge_lifecycle(case["a1"], case["a2"], case["how"])
    if k == "batch":
        return judge_batch_call()
    return []
