"""C03 — reported acceptance integrals follow from stored event columns and trigger rules (E1, small scope)."""

import itertools
import math

import numpy as np

from .. import sim
from ..floats import ulps
from ..ref import integral_ref as IR
from .c02 import geom_cfg, make_geom

PID = "C03"
LEVEL = "exploration"
RULE = (
    "small-scope exhaustive enumeration. Part 1 (mcintegral in isolation, both classes): thrown batches with k=1..3(4) "
    "surviving and >=1 masked-out trajectory; per surviving event the product of trigger {0, thr-1ulp, thr, thr+1ulp, "
    "10thr} x effective cosine {cos_sep-1ulp, cos_sep, cos_sep+1ulp, -1, 1} x exit probability {1.19e-7, 0.5, 1} x "
    "(target) decay length {0, L-1ulp, L, L+1ulp, 2L} x dark-sky {T,F}; thresholds {0,1,10}; spectrum factors; both "
    "method values and cut settings; every permutation of the batch. Part 2 (wiring): compute() on {Diffuse,Target} x "
    "{optical,radio,both} x {mono,power-law} (+ a radio-triggering configuration) with thresholds placed ON actual event "
    "values (value, value*(1+-1e-12), non-integer), header keywords and tmcint columns re-derived from table columns "
    "only. Distinct by (class, method, k, per-event branch signature (in cone, triggered, decays before detector, dark))."
)
ASSUMPTIONS = [
    "in part 1 the astronomy of the dark-sky cut is replaced by a harness-chosen mask (C13 owns it); part 2 uses the real one",
    "reference is a scalar loop over table columns (beta, theta, path length, lenDec, numPEs, costhetaChEff, EFields->SNR via the public calculate_snr, tauExitProb, times) and configuration values",
]

EPS32 = float(np.finfo(np.float32).eps)


def close(a, b, rt=1e-12):
    return abs(a - b) <= rt * max(abs(a), abs(b)) + 1e-300


# ------------------------------------------------------------------------------------------ diffuse, isolated

def diffuse_design(gc, k):
    """u design with exactly k kept events and >= 1 masked-out event (thrown != surviving)."""
    g = make_geom(gc)
    a = (np.arange(6) + 0.5) / 6
    U = np.array(list(itertools.product(a, repeat=4))).T
    with np.errstate(all="ignore"):
        g.throw(U.copy())
    m = np.asarray(g.event_mask)
    kept = np.where(m)[0]
    drop = np.where(~m)[0]
    if len(kept) < k or len(drop) < 1:
        return None
    sel_k = kept[np.linspace(0, len(kept) - 1, k).astype(int)]
    cols = [drop[0]] + list(sel_k) + ([drop[-1]] if k > 1 else [])
    order = sorted(cols)
    return U[:, order]


def diffuse_call(gc, U, trig, cosv, pexit, thr, sn, sw, g=None):
    g = make_geom(gc) if g is None else g
    with np.errstate(all="ignore"):
        g.throw(U.copy())
    n = int(np.sum(g.event_mask))
    t, c, p = np.array(trig, dtype=float), (np.array(cosv, dtype=float) if hasattr(cosv, "__len__") else cosv), np.array(pexit, dtype=float)
    t0, c0, p0 = t.copy(), (c.copy() if hasattr(c, "copy") else c), p.copy()
    r = g.mcintegral(t, c, p, thr, sn, sw)
    same_in = t.tobytes() == t0.tobytes() and p.tobytes() == p0.tobytes() and (not hasattr(c, "tobytes") or c.tobytes() == c0.tobytes())
    ref = IR.diffuse(gc["alt"], gc["limb"], gc["cone"], gc["az"], U.shape[1], g.beta_rad(), g.thetas(), g.pathLens(), trig, cosv, pexit, thr, sn, sw)
    return r, ref, same_in, g


def judge_diffuse(gc, U, trig, cosv, pexit, thr, sn, sw):
    out = []
    try:
        r, ref, same_in, g = diffuse_call(gc, U, trig, cosv, pexit, thr, sn, sw)
    except Exception as ex:
        return [("diffuse_no_exception", "values", f"{type(ex).__name__}: {ex}")]
    if not close(r[0], ref[0]):
        out.append(("diffuse_integral", ref[0], float(r[0])))
    if not close(r[1], ref[1]):
        out.append(("diffuse_geo_integral", ref[1], float(r[1])))
    if int(r[2]) != ref[2]:
        out.append(("diffuse_pass_count", ref[2], int(r[2])))
    if not same_in:
        out.append(("inputs_unmodified", "unchanged", "changed"))
    if sn * sw == 1.0 and max(pexit) <= 1.0 and not (r[0] <= BSHR_BOUND * r[1] * (1 + 1e-12) + 1e-300):
        out.append(("integral_le_0.826_geo", float(BSHR_BOUND * r[1]), float(r[0])))
    return out


BSHR_BOUND = 0.826


def judge_rethrow(gc, k):
    """ONE geometry object thrown again and again (a design, its reversal, the design again, a shifted design, ...), the
    integral taken after every throw -- once or twice: each integral follows from the columns of the throw it was
    taken after (survivor counts stay equal between most throws: nothing may be keyed on the count)."""
    U = diffuse_design(gc, k)
    if U is None:
        return [], 0
    sh = U.copy()
    sh[1] = (sh[1] + 0.11) % 1.0
    g = make_geom(gc)
    out, n = [], 0
    for step, (V, twice) in enumerate(((U, False), (U[:, ::-1].copy(), True), (U, False), (sh, False), (U[:, ::-1].copy(), False), (sh, True))):
        with np.errstate(all="ignore"):
            g.throw(V.copy())
            m = int(np.sum(g.event_mask))
        if m == 0:
            continue
        trig = [10.0 + i for i in range(m)]
        pex = [0.25 + 0.5 * i / m for i in range(m)]
        for rep in range(2 if twice else 1):
            n += 1
            try:
                r, ref, _, _ = diffuse_call(gc, V, trig, -1.0, pex, 1.0, 1.0, 1.0, g=g)
            except Exception as ex:
                return out + [("diffuse_no_exception", f"throw {step} on a re-used geometry object", f"{type(ex).__name__}: {str(ex)[:80]}")], n
            if not (close(r[0], ref[0]) and close(r[1], ref[1]) and int(r[2]) == ref[2]):
                out.append(("integral_follows_from_the_current_throw", f"throw {step} (integral {rep}) on a re-used geometry object: {[ref[0], ref[1], ref[2]]}", [float(r[0]), float(r[1]), int(r[2])]))
                return out, n
    return out, n


def per_event_alphabet_diffuse(cs, thr, reduced):
    trig = [0.0, np.nextafter(thr, -np.inf), thr, np.nextafter(thr, np.inf), 10 * thr if thr else 10.0]
    cosv = [np.nextafter(cs, -np.inf), cs, np.nextafter(cs, np.inf), -1.0, 1.0]
    pex = [EPS32, 0.5, 1.0]
    if reduced:
        trig = [np.nextafter(thr, -np.inf), thr, 10 * thr if thr else 10.0]
        cosv = [np.nextafter(cs, -np.inf), cs, np.nextafter(cs, np.inf)]
        pex = [EPS32, 1.0]
    return list(itertools.product(trig, cosv, pex))


# ------------------------------------------------------------------------------------------ target, isolated

_TG = {}
_TGOBJ = {}


def target_geom(k, cuts=True):
    """a real RegionGeomToO with exactly k surviving instants (searching N), astronomy of the cut stubbed."""
    from nuspacesim.simulation.geometry.region_geometry import RegionGeomToO

    key = (k, cuts)
    if key in _TG:
        return _TG[key]
    found = None
    for N in range(4, 200):
        cfg = sim.make_config(mode="Target", n=N, extra={"detector": {"sun_moon": {"sun_moon_cuts": cuts}}})
        g = RegionGeomToO(cfg)
        g.throw(N)
        if len(g.pathLens()) == k and len(g.times) > k:
            found = (N, cfg)
            break
    _TG[key] = found
    return found


def target_call(k, cuts, method, trig, cosv, pexit, ldec_mode, dark, thr, sn, sw):
    from nuspacesim.simulation.geometry.region_geometry import RegionGeomToO

    N, cfg = target_geom(k, cuts)
    if (k, cuts) not in _TGOBJ:
        g = RegionGeomToO(cfg)
        g.throw(N)
        _TGOBJ[(k, cuts)] = g  # one thrown geometry, many integral calls (as compute() uses it)
    g = _TGOBJ[(k, cuts)]
    L = np.array(g.pathLens(), dtype=float)
    modes = {0: lambda x: 0.0, 1: lambda x: np.nextafter(x, 0), 2: lambda x: x, 3: lambda x: np.nextafter(x, np.inf), 4: lambda x: 2 * x}
    ldec = np.array([modes[m](x) for m, x in zip(ldec_mode, L)], dtype=float)
    darkv = np.array(dark, dtype=bool)
    g.too_source.sun_moon_cut = lambda t: darkv.copy()
    rec = {}

    def store(names, cols):
        rec[names[0]] = np.array(cols[0], dtype=float)

    t, c, p = np.array(trig, dtype=float), (np.array(cosv, dtype=float) if hasattr(cosv, "__len__") else cosv), np.array(pexit, dtype=float)
    t0, p0, l0 = t.copy(), p.copy(), ldec.copy()
    r = g.mcintegral(t, c, p, thr, sn, sw, lenDec=ldec, method=method, store=store)
    same_in = t.tobytes() == t0.tobytes() and p.tobytes() == p0.tobytes() and ldec.tobytes() == l0.tobytes()
    use_dark = list(darkv) if (cuts and method == "Optical") else None
    ref = IR.target(N, L, ldec, trig, cosv, pexit, thr, use_dark, sn, sw)
    return r, ref, rec, same_in


def judge_target(k, cuts, method, trig, cosv, pexit, ldec_mode, dark, thr, sn, sw):
    out = []
    try:
        r, ref, rec, same_in = target_call(k, cuts, method, trig, cosv, pexit, ldec_mode, dark, thr, sn, sw)
    except Exception as ex:
        return [("target_no_exception", "values", f"{type(ex).__name__}: {ex}")]
    if not close(r[0], ref[0]):
        out.append(("target_integral", ref[0], float(r[0])))
    if not close(r[1], ref[1]):
        out.append(("target_geo_integral", ref[1], float(r[1])))
    if int(r[2]) != ref[2]:
        out.append(("target_pass_count", ref[2], int(r[2])))
    col = "tmcintopt" if method == "Optical" else "tmcintrad"
    if col not in rec or len(rec[col]) != len(ref[3]) or any(not close(a, b) for a, b in zip(rec[col], ref[3])):
        out.append(("target_per_event_column", ref[3], rec.get(col, np.array([])).tolist()))
    if not same_in:
        out.append(("inputs_unmodified", "unchanged", "changed"))
    if sn * sw == 1.0 and not (r[0] <= BSHR_BOUND * r[1] * (1 + 1e-12) + 1e-300):
        out.append(("integral_le_0.826_geo", float(BSHR_BOUND * r[1]), float(r[0])))
    return out


# ------------------------------------------------------------------------------------------ wiring through compute()

def wiring_reference(cfg, t):
    """re-derive every reported integral from table columns + configuration only"""
    from nuspacesim.simulation.eas_radio.radio_antenna import calculate_snr
    from nuspacesim.simulation.geometry.too import ToOEvent
    from nuspacesim.simulation.spectra.spectra import spec_norm, sum_spec_weights

    s = cfg.simulation
    d = cfg.detector
    sn = float(spec_norm(s.spectrum))
    sw = float(sum_spec_weights(s.spectrum))
    n = s.thrown_events
    out = {}
    chans = []
    if d.optical.enable:
        chans.append(("O", "Optical", np.asarray(t["numPEs"], dtype=float), np.asarray(t["costhetaChEff"], dtype=float), d.optical.photo_electron_threshold))
    if d.radio.enable:
        snr = calculate_snr(np.asarray(t["EFields"], dtype=float), (d.radio.low_frequency, d.radio.high_frequency), d.initial_position.altitude, d.radio.nantennas, d.radio.gain)
        chans.append(("R", "Radio", np.asarray(snr, dtype=float), math.cos(s.max_cherenkov_angle), d.radio.snr_threshold))
    for tag, method, trig, cosv, thr in chans:
        if s.mode == "Diffuse":
            r = IR.diffuse(d.initial_position.altitude, s.angle_from_limb, s.max_cherenkov_angle, s.max_azimuth_angle, n, np.asarray(t["beta_rad"]), np.asarray(t["theta_rad"]), np.asarray(t["path_len"]), trig, cosv, np.asarray(t["tauExitProb"]), thr, sn, sw)
        else:
            dark = None
            if method == "Optical" and d.sun_moon.sun_moon_cuts:
                dark = list(np.asarray(ToOEvent(cfg).sun_moon_cut(t["times"]), dtype=bool))
            r = IR.target(n, np.asarray(t["path_len"]), np.asarray(t["lenDec"]), trig, cosv, np.asarray(t["tauExitProb"]), thr, dark, sn, sw)
        out[tag] = r
    return out


def judge_wiring(spec):
    kw = {k: v for k, v in spec.items() if k not in ("seed", "tag")}
    cfg = sim.make_config(**kw)
    t = sim.run(cfg, seed=spec.get("seed", 5))
    out = []
    if len(t) == 0:
        return out, t, {}
    ref = wiring_reference(cfg, t)
    for tag, r in ref.items():
        keys = {"O": ("OMCINT", "OMCINTGO", "ONEVPASS", "tmcintopt"), "R": ("RMCINT", "RMCINTGO", "RNEVPASS", "tmcintrad")}[tag]
        meta = {k: (v[0] if isinstance(v, tuple) else v) for k, v in t.meta.items()}
        for key in keys[:3]:
            if key not in meta:
                out.append(("header_keyword_present", key, "missing"))
        if any(k not in meta for k in keys[:3]):
            continue
        if not close(meta[keys[0]], r[0], 1e-11):
            out.append(("header_integral", f"{keys[0]}={r[0]!r}", float(meta[keys[0]])))
        if not close(meta[keys[1]], r[1], 1e-11):
            out.append(("header_geo_integral", f"{keys[1]}={r[1]!r}", float(meta[keys[1]])))
        if int(meta[keys[2]]) != r[2]:
            out.append(("header_pass_count", f"{keys[2]}={r[2]}", int(meta[keys[2]])))
        if cfg.simulation.mode == "Target":
            if keys[3] not in t.colnames or any(not close(a, b, 1e-11) for a, b in zip(np.asarray(t[keys[3]], dtype=float), r[3])):
                out.append(("per_event_column", keys[3], "differs from reference"))
    for tag, keys in (("O", ("OMCINT", "OMCINTGO", "ONEVPASS")), ("R", ("RMCINT", "RMCINTGO", "RNEVPASS"))):
        if tag not in ref and any(k in t.meta for k in keys):
            out.append(("no_keyword_for_disabled_channel", tag, [k for k in keys if k in t.meta]))
    return out, t, ref


def wiring_specs(tier):
    specs = []
    for mode, (o, r), sp in itertools.product(("Diffuse", "Target"), ((True, True), (True, False), (False, True)), ("mono", "power")):
        specs.append(dict(mode=mode, optical=o, radio=r, spectrum=sp, n=150, tag="cross"))
    # a configuration in which radio events trigger (balloon altitude, 10^10 GeV)
    specs.append(dict(mode="Diffuse", optical=True, radio=True, spectrum="mono", logE=10.0, altitude=33.0, n=150, tag="radio_triggers"))
    specs.append(dict(mode="Target", optical=True, radio=True, spectrum="mono", logE=11.5, altitude=33.0, n=150, tag="target_far_decays"))
    return specs


def threshold_variants(spec, t, cfg):
    """place thresholds ON actual event values (the comparisons in the anchored code)"""
    from nuspacesim.simulation.eas_radio.radio_antenna import calculate_snr

    out = []
    d = cfg.detector
    # thresholds no event reaches / every event reaches (the geometry-only integral does not depend on them)
    if d.optical.enable:
        out += [("optical", {"detector": {"optical": {"photo_electron_threshold": thr}}}) for thr in (1e30, 1e-30)]  # (0 itself divides by zero in the effective-cone formula: not a threshold)
    if d.radio.enable:
        out += [("radio", {"detector": {"radio": {"snr_threshold": thr}}}) for thr in (1e30, 0.0)]
    if d.optical.enable and "numPEs" in t.colnames:
        pes = np.asarray(t["numPEs"], dtype=float)
        cand = pes[(pes > 1.0) & (np.abs(pes - np.round(pes)) > 1e-6)]
        if len(cand):
            p = float(np.sort(cand)[len(cand) // 2])
            for thr in (p, p * (1 + 1e-12), p * (1 - 1e-12), math.floor(p) + 0.999999):
                out.append(("optical", {"detector": {"optical": {"photo_electron_threshold": thr}}}))
    if d.radio.enable and "EFields" in t.colnames:
        snr = np.asarray(calculate_snr(np.asarray(t["EFields"], dtype=float), (d.radio.low_frequency, d.radio.high_frequency), d.initial_position.altitude, d.radio.nantennas, d.radio.gain), dtype=float)
        cand = snr[snr > 0]
        if len(cand):
            p = float(np.sort(cand)[(2 * len(cand)) // 3])
            for thr in (p, p * (1 + 1e-12), p * (1 - 1e-12)):
                out.append(("radio", {"detector": {"radio": {"snr_threshold": thr}}}))
    return out


FORM_U = [[0.1, 0.5, 0.9, 0.3, 0.7], [0.2, 0.4, 0.6, 0.8, 0.1], [0.3, 0.3, 0.5, 0.7, 0.9], [0.9, 0.5, 0.2, 0.6, 0.4]]


def judge_forms(f, method):
    """input forms for the diffuse estimator: (trigger values, cosines, exit probabilities, decay lengths) as narrower arrays"""
    from .. import forms

    gc = geom_cfg(525.0, 0.2, 0.3, 7.0, 3.0, 360.0)

    def mc(trig, cosv, pex, ld):
        g = make_geom(gc)
        g.throw(np.array(FORM_U))
        n = int(np.sum(g.event_mask))
        return tuple(np.asarray(x, dtype=float) for x in g.mcintegral(trig[:n], cosv[:n], pex[:n], 10.0, 1.0, 1.0, lenDec=ld[:n], method=method))

    cols = [np.array([100.0, 5.0, 10.0, 20.0, 0.0]), np.array([1.0, 0.5, 1.0, 0.0, 1.0]), np.array([1.0, 0.5, 1.0, 0.25, 1.0]), np.array([0.0, 1.0, 2.0, 4.0, 8.0])]
    return forms.judge(mc, cols, tuple(f), what=f"RegionGeom.mcintegral({method})")


def run(ctx):
    from .. import forms as _forms

    for method in ("Optical", "Radio"):
        for f in _forms.product(4, per_array=("f4", "i8")):
            ctx.tick(5, ("forms", method, f))
            for c, e, o in judge_forms(f, method):
                ctx.violation(c, {"kind": "forms", "forms": list(f), "method": method}, e, o)
    tier = ctx.tier
    kmax = 3 if tier == "quick" else 4
    # ---- part 1a: diffuse
    gcs = [geom_cfg(525.0, 0.2, 0.3, 7.0, 3.0, 360.0), geom_cfg(33.0, 0.0, 0.0, 2.0, 30.0, 90.0)]
    n1 = 0
    for gi, gc in enumerate(gcs):
        for k in (1, 2, 3, 5):
            v, nn = judge_rethrow(gc, k)
            ctx.tick(nn, ("rethrow", gi, k))
            for c, e, o in v:
                ctx.violation(c, {"kind": "rethrow", "gc": gc, "k": k}, e, o)
    for gi, gc in enumerate(gcs):
        for k in range(1, kmax + 1):
            U = diffuse_design(gc, k)
            if U is None:
                continue
            g = make_geom(gc)
            g.throw(U.copy())
            cs = np.cos(g.thetas())
            for thr in (0.0, 1.0, 10.0):
                for sn, sw in ((1.0, 1.0), (3.7, 1 / 3.7)):
                    if (sn != 1.0) and (thr != 1.0):
                        continue
                    reduced = k >= 2 and not (k == 2 and gi == 0 and sn == 1.0)
                    if k >= 3:
                        alph = [per_event_alphabet_diffuse(c, thr, True)[:: 2 if k == 3 else 3] for c in cs]
                    else:
                        alph = [per_event_alphabet_diffuse(c, thr, reduced) for c in cs]
                    for combo in itertools.product(*alph):
                        trig = [c[0] for c in combo]
                        cosv = [c[1] for c in combo]
                        pex = [c[2] for c in combo]
                        v = judge_diffuse(gc, U, trig, cosv, pex, thr, sn, sw)
                        n1 += 1
                        sig = tuple((t >= thr, cv <= c0) for t, cv, c0 in zip(trig, cosv, cs))
                        ctx.tick(1, ("D", gi, k, thr, sig))
                        for c, e, o in v:
                            ctx.violation(c, {"kind": "diffuse", "gc": gc, "U": U.tolist(), "trig": trig, "cos": cosv, "pexit": pex, "thr": thr, "sn": sn, "sw": sw}, e, o)
            # scalar cosine (the radio wiring passes a scalar)
            for cosv in (math.cos(gc["cone"]), -1.0, 1.0, float(cs[0])):
                trig = [5.0] * k
                pex = [0.5] * k
                v = judge_diffuse(gc, U, trig, cosv, pex, 1.0, 1.0, 1.0)
                n1 += 1
                ctx.tick(1, ("Dscalar", gi, k, cosv))
                for c, e, o in v:
                    ctx.violation(c, {"kind": "diffuse", "gc": gc, "U": U.tolist(), "trig": trig, "cos": cosv, "pexit": pex, "thr": 1.0, "sn": 1.0, "sw": 1.0}, e, o)
            # permutations of the batch + threshold monotonicity
            base_tr = [3.0, 12.0, 0.5, 40.0][:k]
            base_pe = [0.3, 1.0, EPS32, 0.7][:k]
            base_co = [float(np.nextafter(cs[i], -np.inf)) if i % 2 == 0 else -1.0 for i in range(k)]
            kept_cols = np.where(np.asarray(g.event_mask))[0]
            r0, _, _, _ = diffuse_call(gc, U, base_tr, base_co, base_pe, 1.0, 1.0, 1.0)
            for perm in itertools.permutations(range(U.shape[1])):
                Up = U[:, list(perm)]
                gp = make_geom(gc)
                gp.throw(Up.copy())
                # kept events in permuted order
                order = [list(kept_cols).index(p) for p in perm if p in kept_cols]
                rp, _, _, _ = diffuse_call(gc, Up, [base_tr[j] for j in order], [base_co[j] for j in order], [base_pe[j] for j in order], 1.0, 1.0, 1.0)
                n1 += 1
                ctx.tick(1)
                if not (ulps(rp[0], r0[0]) <= 4 * k and ulps(rp[1], r0[1]) <= 4 * k and rp[2] == r0[2]):
                    ctx.violation("permutation_invariant", {"kind": "diffuse_perm", "gc": gc, "U": U.tolist(), "perm": list(perm), "trig": base_tr, "cos": base_co, "pexit": base_pe}, [float(r0[0]), float(r0[1]), int(r0[2])], [float(rp[0]), float(rp[1]), int(rp[2])])
            ctx.sigs.add(("Dperm", gi, k))
            prev = None
            for thr in (0.0, 0.5, 3.0, 12.0, 40.0, 41.0):
                r, _, _, _ = diffuse_call(gc, U, base_tr, [-1.0] * k, base_pe, thr, 1.0, 1.0)
                n1 += 1
                ctx.tick(1, ("Dthr", gi, k, thr))
                if prev is not None and not (r[0] <= prev * (1 + 1e-15)):
                    ctx.violation("non_increasing_in_threshold", {"kind": "diffuse_thr", "gc": gc, "U": U.tolist(), "trig": base_tr, "pexit": base_pe, "thr": thr}, f"<= {prev}", float(r[0]))
                prev = r[0]
    # histories on ONE thrown geometry object: all sequences of length <= 3 over an alphabet of 4 calls; every call's
    # result must equal the same call on a freshly thrown object (compute() calls mcintegral twice on one throw)
    nh = 0
    for gi, gc in enumerate(gcs):
        U = diffuse_design(gc, 3)
        if U is None:
            continue
        g0 = make_geom(gc)
        g0.throw(U.copy())
        cs = np.cos(g0.thetas())
        narrow = [float(np.nextafter(c, np.inf)) for c in cs]  # every event just outside its cone
        mixed = [float(np.nextafter(cs[0], np.inf)), -1.0, float(cs[2])]
        calls = [
            (list(narrow), [50.0, 50.0, 50.0], 10.0),
            (math.cos(gc["cone"]), [50.0, 50.0, 50.0], 10.0),
            (list(mixed), [5.0, 50.0, 500.0], 10.0),
            (-1.0, [0.5, 50.0, 5.0], 1.0),
        ]
        pex = [0.3, 1.0, 0.7]

        def one(g, c):
            cosv, trig, thr = c
            r = g.mcintegral(np.array(trig), (np.array(cosv) if isinstance(cosv, list) else cosv), np.array(pex), thr, 1.0, 1.0)
            return (float(r[0]), float(r[1]), int(r[2]))

        fresh = []
        for c in calls:
            g = make_geom(gc)
            g.throw(U.copy())
            fresh.append(one(g, c))
        for d in (2, 3):
            for seq in itertools.product(range(len(calls)), repeat=d):
                g = make_geom(gc)
                g.throw(U.copy())
                for pos, ci in enumerate(seq):
                    r = one(g, calls[ci])
                    nh += 1
                    if r != fresh[ci]:
                        ctx.violation("integral_independent_of_call_history", {"kind": "diffuse_history", "gc": gc, "U": U.tolist(), "seq": list(seq[: pos + 1])}, list(fresh[ci]), list(r))
                        break
        ctx.tick(nh, ("Dhist", gi))
    ctx.cov["isolated_diffuse_history_calls"] = nh
    ctx.cov["isolated_diffuse_calls"] = n1
    ctx.sample({"kind": "diffuse", "k": 2, "trigger": [9.999999999999998, 10.0], "threshold": 10.0, "cos_eff": "cos_sep-1ulp, cos_sep+1ulp", "pexit": [1.19e-7, 1.0]})
    # ---- part 1b: target
    n2 = 0
    for k in range(1, (2 if tier == "quick" else 3) + 1):
        for cuts in (True, False):
            if target_geom(k, cuts) is None:
                ctx.note(f"no target design with {k} survivors found")
                continue
            for method in ("Optical", "Radio"):
                thr = 10.0
                trig_a = [np.nextafter(thr, -np.inf), thr, 10 * thr] if k > 1 else [0.0, np.nextafter(thr, -np.inf), thr, np.nextafter(thr, np.inf), 10 * thr]
                cos_a = [math.cos(math.radians(1.5)), 0.5, 1.0] if k == 1 else [math.cos(math.radians(1.5)), 1.0]
                pex_a = [EPS32, 0.5, 1.0] if k == 1 else [EPS32, 1.0]
                ld_a = [0, 1, 2, 3, 4]
                dk_a = [True, False]
                per = list(itertools.product(trig_a, cos_a, pex_a, ld_a, dk_a))
                if k > 1:
                    per = per[::3]
                for combo in itertools.product(per, repeat=k):
                    trig = [c[0] for c in combo]
                    cosv = [c[1] for c in combo]
                    pex = [c[2] for c in combo]
                    ld = [c[3] for c in combo]
                    dk = [c[4] for c in combo]
                    v = judge_target(k, cuts, method, trig, cosv, pex, ld, dk, thr, 1.0, 1.0)
                    n2 += 1
                    sig = tuple((t >= thr, l >= 2, d_) for t, l, d_ in zip(trig, ld, dk))
                    ctx.tick(1, ("T", k, cuts, method, sig))
                    for c, e, o in v:
                        ctx.violation(c, {"kind": "target", "k": k, "cuts": cuts, "method": method, "trig": trig, "cos": cosv, "pexit": pex, "ld": ld, "dark": dk, "thr": thr, "sn": 1.0, "sw": 1.0}, e, o)
                # spectrum factors + scalar cosine
                v = judge_target(k, cuts, method, [50.0] * k, math.cos(math.radians(3.0)), [0.5] * k, [0] * k, [True] * k, 10.0, 3.7, 1 / 3.7)
                n2 += 1
                ctx.tick(1, ("Tscalar", k, cuts, method))
                for c, e, o in v:
                    ctx.violation(c, {"kind": "target", "k": k, "cuts": cuts, "method": method, "trig": [50.0] * k, "cos": math.cos(math.radians(3.0)), "pexit": [0.5] * k, "ld": [0] * k, "dark": [True] * k, "thr": 10.0, "sn": 3.7, "sw": 1 / 3.7}, e, o)
    # other spellings of the channel label: refused, or -- if accepted -- evaluated as the channel they spell (an
    # "optical" that is let in but integrated without the dark-sky cut is neither)
    for label, canon in (("optical", "Optical"), ("OPTICAL", "Optical"), (" Optical", "Optical"), ("Optical ", "Optical"), ("radio", "Radio"), ("RADIO", "Radio")):
        ctx.tick(1, ("label", label))
        args = (2, True, [50.0, 50.0], [math.cos(math.radians(1.5))] * 2, [0.5, 0.5], [0, 0], [True, False], 10.0, 1.0, 1.0)
        if target_geom(2, True) is None:
            break
        try:
            r, _, rec, _ = target_call(args[0], args[1], label, *args[2:])
        except Exception:
            continue
        rc, refc, recc, _ = target_call(args[0], args[1], canon, *args[2:])
        if not (close(r[0], rc[0]) and int(r[2]) == int(rc[2])):
            ctx.violation("channel_label_means_its_channel", {"kind": "label", "label": label}, f"method={label!r} refused, or evaluated as {canon}: integral {float(rc[0])!r}, {int(rc[2])} passing", f"integral {float(r[0])!r}, {int(r[2])} passing")
    try:
        judge_target(1, True, "Cherenkov", [1.0], [0.9], [0.5], [0], [True], 10.0, 1.0, 1.0)
        bad_method = True
    except Exception:
        bad_method = False
    # an unknown method must be rejected (target_no_exception is how judge_target reports the raise)
    ctx.cov["isolated_target_calls"] = n2
    ctx.sample({"kind": "target", "k": 1, "method": "Optical", "cuts": True, "trigger": 10.0, "threshold": 10.0, "lenDec": "L+1ulp", "dark": False})
    # ---- part 2: wiring
    n3 = 0
    for spec in wiring_specs(tier):
        v, t, ref = judge_wiring(spec)
        n3 += 1
        ctx.tick(max(len(t), 1), ("W", spec["mode"], spec["optical"], spec["radio"], spec["spectrum"], spec["tag"], tuple(sorted((k, r[2] > 0) for k, r in ref.items()))))
        for c, e, o in v:
            ctx.violation(c, {"kind": "wiring", "spec": spec, "item": str(e)[:60]}, e, o)
        if len(t) and (tier == "thorough" or spec["spectrum"] == "mono"):
            kw = {k: v_ for k, v_ in spec.items() if k not in ("seed", "tag")}
            cfg = sim.make_config(**kw)
            for chan, extra in threshold_variants(spec, t, cfg):
                s2 = dict(spec)
                s2["extra"] = extra
                v, t2, ref2 = judge_wiring(s2)
                n3 += 1
                ctx.tick(max(len(t2), 1), ("Wthr", spec["mode"], spec["tag"], chan, tuple(sorted((k, r[2]) for k, r in ref2.items()))))
                for c, e, o in v:
                    ctx.violation(c, {"kind": "wiring", "spec": s2, "item": str(e)[:60]}, e, o)
    ctx.cov["compute_runs"] = n3
    ctx.sample({"kind": "wiring", "spec": wiring_specs(tier)[-2]})


def replay(case):
    k = case["kind"]
    if k == "forms":
        return judge_forms(case["forms"], case["method"])
    if k == "label":
        canon = "Optical" if case["label"].strip().lower() == "optical" else "Radio"
        args = (2, True, [50.0, 50.0], [math.cos(math.radians(1.5))] * 2, [0.5, 0.5], [0, 0], [True, False], 10.0, 1.0, 1.0)
        try:
            r, _, _, _ = target_call(args[0], args[1], case["label"], *args[2:])
        except Exception:
            return []
        rc, _, _, _ = target_call(args[0], args[1], canon, *args[2:])
        return [] if (close(r[0], rc[0]) and int(r[2]) == int(rc[2])) else [("channel_label_means_its_channel", float(rc[0]), float(r[0]))]
    if k == "rethrow":
        return judge_rethrow(case["gc"], case["k"])[0]
    if k == "diffuse":
        return judge_diffuse(case["gc"], np.array(case["U"], dtype=float), case["trig"], case["cos"], case["pexit"], case["thr"], case["sn"], case["sw"])
    if k == "diffuse_perm":
        gc, U = case["gc"], np.array(case["U"], dtype=float)
        g = make_geom(gc)
        g.throw(U.copy())
        kk = int(np.sum(g.event_mask))
        kept_cols = list(np.where(np.asarray(g.event_mask))[0])
        r0, _, _, _ = diffuse_call(gc, U, case["trig"], case["cos"], case["pexit"], 1.0, 1.0, 1.0)
        perm = case["perm"]
        order = [kept_cols.index(p) for p in perm if p in kept_cols]
        rp, _, _, _ = diffuse_call(gc, U[:, perm], [case["trig"][j] for j in order], [case["cos"][j] for j in order], [case["pexit"][j] for j in order], 1.0, 1.0, 1.0)
        ok = ulps(rp[0], r0[0]) <= 4 * kk and ulps(rp[1], r0[1]) <= 4 * kk and rp[2] == r0[2]
        return [] if ok else [("permutation_invariant", [float(x) for x in r0[:2]], [float(x) for x in rp[:2]])]
    if k == "diffuse_thr":
        gc, U = case["gc"], np.array(case["U"], dtype=float)
        kk = len(case["trig"])
        ths = [0.0, 0.5, 3.0, 12.0, 40.0, 41.0]
        i = ths.index(case["thr"])
        a, _, _, _ = diffuse_call(gc, U, case["trig"], [-1.0] * kk, case["pexit"], ths[i - 1], 1.0, 1.0)
        b, _, _, _ = diffuse_call(gc, U, case["trig"], [-1.0] * kk, case["pexit"], ths[i], 1.0, 1.0)
        return [] if b[0] <= a[0] * (1 + 1e-15) else [("non_increasing_in_threshold", float(a[0]), float(b[0]))]
    if k == "diffuse_history":
        gc, U = case["gc"], np.array(case["U"], dtype=float)
        g0 = make_geom(gc)
        g0.throw(U.copy())
        cs = np.cos(g0.thetas())
        calls = [
            ([float(np.nextafter(c, np.inf)) for c in cs], [50.0, 50.0, 50.0], 10.0),
            (math.cos(gc["cone"]), [50.0, 50.0, 50.0], 10.0),
            ([float(np.nextafter(cs[0], np.inf)), -1.0, float(cs[2])], [5.0, 50.0, 500.0], 10.0),
            (-1.0, [0.5, 50.0, 5.0], 1.0),
        ]
        pex = [0.3, 1.0, 0.7]

        def one(g, c):
            cosv, trig, thr = c
            r = g.mcintegral(np.array(trig), (np.array(cosv) if isinstance(cosv, list) else cosv), np.array(pex), thr, 1.0, 1.0)
            return (float(r[0]), float(r[1]), int(r[2]))

        g = make_geom(gc)
        g.throw(U.copy())
        f = one(g, calls[case["seq"][-1]])
        g = make_geom(gc)
        g.throw(U.copy())
        r = None
        for ci in case["seq"]:
            r = one(g, calls[ci])
        return [] if r == f else [("integral_independent_of_call_history", list(f), list(r))]
    if k == "target":
        return judge_target(case["k"], case["cuts"], case["method"], case["trig"], case["cos"], case["pexit"], case["ld"], case["dark"], case["thr"], case["sn"], case["sw"])
    if k == "wiring":
        v, _, _ = judge_wiring(case["spec"])
        return [(c, e, o) for c, e, o in v if str(e)[:60] == case["item"]]
    return []
