"""C09 — clouds remove exactly the light emitted below the cloud top at the event site (E1 lattice)."""

import itertools
import math

import numpy as np

from .. import own, par, sim
from ..ref import cphot_ref as CR
from ..zsteps_shim import build as zb

PID = "C09"
LEVEL = "exploration"
RULE = (
    "kernel part: event lattice x cloud-top alphabet ADAPTED to each event's actual track segments (read by a spy around "
    "valid_arrays): {-inf, -1, 0, zs[0]-1ulp, zs[0], zs[0]+1ulp, zs[k]+-1ulp for k in {1, argmax N, n-3, n-2, n-1}, 100, "
    "+inf}; model part: NoCloud / MonoCloud altitudes on a lat/long lattice incl. poles and +-pi; PressureMapCloud for "
    "the months of the tier on EVERY node (every 8th in quick) and every cell centre of the 361 x 576 map with inputs in "
    "radians as the geometry stage produces them, vectorised and through scalar calls. Distinct by (event, cloud class "
    "below/between/above) and (month, node/centre, hemisphere quadrant)."
)
ASSUMPTIONS = [
    "the map model's cell convention is not fixed by the property: any of the <= 4 nodes bracketing (lat deg, long deg) on the grid the code itself defines is accepted",
    "the Cherenkov angle under a cloud is judged only where the reference photon density is >= 1e-25 m^-2 (below that the float32 per-segment yields underflow and the yield-weighted angle is immaterial)",
    "between first and penultimate segment the reference is evaluated with the cloud top 1e-4 km below and above the value (either-side rule at segment boundaries) with C06's tolerances",
]


def spy_kernel():
    import nuspacesim.simulation.eas_optical.cphotang as cp

    cp.cppzsteps = zb.zsteps

    class Spy(cp.CphotAng):
        def valid_arrays(self, *a, **k):
            r = super().valid_arrays(*a, **k)
            self.last_zs = np.array(r[0], dtype=np.float64)
            self.last_RN = np.array(r[6], dtype=np.float64)
            return r

    return Spy(525.0)


def yield_zeroing_kernel():
    """reference in the implementation language: the CLOUD-FREE kernel whose per-segment photon yield is zeroed for the
    segments below a chosen altitude -- 'the model evaluated with all light emitted below the cloud top removed'."""
    import nuspacesim.simulation.eas_optical.cphotang as cp

    cp.cppzsteps = zb.zsteps

    class Zero(cp.CphotAng):
        cut = -math.inf
        used = False

        def sphoton_yeild(self, thetaC, RN, delgram, ZonZ, z, ThetPrpA):
            y = super().sphoton_yeild(thetaC, RN, delgram, ZonZ, z, ThetPrpA)
            type(self).used = True
            y = np.array(y, copy=True)
            y[np.asarray(z) < self.cut, ...] = 0
            return y

    return Zero(525.0)


def events(tier):
    bs = [math.radians(x) for x in ((1.0, 5.0, 20.0, 40.0) if tier == "quick" else (1.0, 3.0, 5.0, 10.0, 20.0, 40.0))]
    als = [0.0, 2.0, 8.0, 15.0] if tier == "quick" else [0.0, 0.5, 2.0, 5.0, 8.0, 15.0]
    Es = [1e-3, 1.0, 100.0]
    return list(itertools.product(bs, als, Es))


def cloud_alphabet(zs, RN):
    n = len(zs)
    up = lambda x: float(np.nextafter(x, np.inf))
    dn = lambda x: float(np.nextafter(x, -np.inf))
    out = [-math.inf, -1.0, 0.0, dn(zs[0]), float(zs[0]), up(zs[0]), 100.0, math.inf]
    ks = sorted(set(k for k in (1, int(np.argmax(RN)), n - 3, n - 2, n - 1) if 0 <= k < n))
    for k in ks:
        out += [dn(zs[k]), float(zs[k]), up(zs[k])]
    out += [0.5 * float(zs[0] + zs[1]), 0.5 * float(zs[int(np.argmax(RN))] + zs[min(n - 1, int(np.argmax(RN)) + 1)])]
    return sorted(set(out))


def judge_event(ev):
    b, a, E = ev
    k = spy_kernel()
    out = []
    with np.errstate(all="ignore"):
        base = k.run(np.float64(b), np.float64(a), np.float64(E), 0.3, 1.0, None)
        zs, RN = k.last_zs.copy(), k.last_RN.copy()
        baseb = (np.float64(base[0]).tobytes(), np.float64(base[1]).tobytes())
        n = 0
        sig = set()
        for ct in cloud_alphabet(zs, RN):
            r = k.run(np.float64(b), np.float64(a), np.float64(E), 0.3, 1.0, lambda la, lo, _c=ct: np.float64(_c))
            n += 1
            rb = (np.float64(r[0]).tobytes(), np.float64(r[1]).tobytes())
            d, ang = float(r[0]), float(r[1])
            if not (math.isfinite(d) and math.isfinite(ang) and d >= 0 and ang >= 0):
                out.append(("finite_nonnegative", ct, ">= 0 finite", [d, ang]))
                continue
            if ct < zs[0] and ct != 0.0 or (ct == 0.0 and zs[0] > 0.0):
                sig.add("below")
                if rb != baseb:
                    out.append(("cloud_below_first_segment_is_cloud_free", ct, [float(base[0]), float(base[1])], [d, ang]))
            elif zs[-2] < ct:
                sig.add("above")
                if not (d == 0.0 and ang == 0.0):
                    out.append(("cloud_above_penultimate_segment_gives_zero", ct, [0.0, 0.0], [d, ang]))
            elif ct > zs[0]:
                sig.add("between")
                lo = CR.shower(b, a, E, cloud_top=ct - 1e-4)
                hi = CR.shower(b, a, E, cloud_top=ct + 1e-4)
                okd = any(abs(d - rd) <= max(0.10 * rd, 0.1) for rd, _ in (lo, hi))
                oka = any((ra == 0 and ang == 0) or (ra > 0 and abs(ang - ra) <= 0.01 * ra) for _, ra in (lo, hi))
                if not okd:
                    out.append(("light_below_cloud_removed_density", ct, [lo[0], hi[0]], d))
                # sharp form of the same clause: the cloud-free kernel with the yield of the segments below the cloud top
                # zeroed (everything else, in particular the position of shower maximum, as in the cloud-free shower)
                zk = yield_zeroing_kernel()
                zk.cut = ct
                type(zk).used = False
                zr = zk.run(np.float64(b), np.float64(a), np.float64(E), 0.3, 1.0, None)
                if type(zk).used:
                    zd, za = float(zr[0]), float(zr[1])
                    if not (abs(d - zd) <= 1e-5 * abs(zd) + 1e-30 and abs(ang - za) <= 1e-5 * abs(za) + 1e-30):
                        out.append(("equals_cloud_free_kernel_with_yield_below_cloud_removed", ct, [zd, za], [d, ang]))
                # when (almost) no light survives the cloud the per-segment yields underflow single precision and the
                # yield-weighted angle is immaterial: the angle is judged only where the reference density is representable
                if not oka and max(lo[0], hi[0]) >= 1e-25:
                    out.append(("light_below_cloud_removed_angle", ct, [lo[1], hi[1]], ang))
            else:
                sig.add("at_first_segment")  # ct == zs[0]: either rule acceptable (strictness not stated)
    return out, n, sorted(sig)


def judge_constant(kind, alt):
    from nuspacesim.simulation.atmosphere.clouds import CloudTopHeight

    if kind == "none":
        cfg = sim.make_config(cloud="none")
        exp = None
    else:
        cfg = sim.make_config(extra={"simulation": {"cloud_model": {"id": "monocloud", "altitude": alt}}})
        exp = np.float32(alt)
    c = CloudTopHeight(cfg)
    vals = []
    for la, lo in itertools.product([-math.pi / 2, -1.0, 0.0, 0.3, math.pi / 2], [-math.pi, -1.0, 0.0, 2.0, math.pi]):
        vals.append(float(c(la, lo)))
    out = []
    if len(set(vals)) != 1 and not all(math.isnan(v) for v in vals):
        out.append(("constant_model_same_everywhere", vals[0], sorted(set(vals))[:3]))
    if exp is not None and not (np.float32(vals[0]) == exp or (math.isinf(alt) and vals[0] == alt)):
        out.append(("uniform_cloud_equals_configured_altitude", float(exp), vals[0]))
    if kind != "none":
        # the model belongs to the configuration AS IT WAS when the model was built (an altitude scan builds its models
        # first and evaluates them afterwards): editing the live configuration object must not move an existing model
        for other in (alt + 3.5, -1.0, 50.0):
            try:
                cfg.simulation.cloud_model.altitude = other
            except Exception:
                break
            moved = float(c(0.3, 2.0))
            if not (np.float32(moved) == np.float32(vals[0]) or (math.isnan(moved) and math.isnan(vals[0]))):
                out.append(("model_keeps_the_altitude_it_was_built_with", vals[0], moved))
                break
    if kind == "none":
        # "no cloud" must leave every shower cloud-free, also one that starts at the surface
        k = spy_kernel()
        for ev in ((math.radians(5.0), 0.0, 1.0), (math.radians(1.0), 0.0, 1e-3), (math.radians(30.0), 0.3, 10.0)):
            with np.errstate(all="ignore"):
                r0 = k.run(np.float64(ev[0]), np.float64(ev[1]), np.float64(ev[2]), 0.3, 1.0, None)
                r1 = k.run(np.float64(ev[0]), np.float64(ev[1]), np.float64(ev[2]), 0.3, 1.0, c)
            if (np.float64(r0[0]).tobytes(), np.float64(r0[1]).tobytes()) != (np.float64(r1[0]).tobytes(), np.float64(r1[1]).tobytes()):
                out.append(("no_cloud_model_is_cloud_free", [float(r0[0]), float(r0[1])], [float(r1[0]), float(r1[1])]))
                break
    return out, len(vals), vals[0]


def judge_map(month, stride):
    """every (stride-th) node and every cell centre"""
    from nuspacesim.simulation.atmosphere.clouds import CloudTopHeight, extract_fits_cloud_pressure_map_v0
    from nuspacesim.simulation.eas_optical import atmospheric_models as atm

    cfg = sim.make_config(extra={"simulation": {"cloud_model": {"id": "pressure_map", "month": month}}})
    c = CloudTopHeight(cfg)
    m = np.asarray(extract_fits_cloud_pressure_map_v0(cfg.simulation.cloud_model), dtype=np.float64)
    nlat, nlon = m.shape
    lats = np.linspace(-90, 90, nlat)
    lons = np.linspace(-180, 180, nlon)
    altmap = np.asarray(atm.us_std_atm_altitude_from_pressure(m))
    out = []
    n = 0

    def check(latd, lond, tag):
        nonlocal n
        La, Lo = np.meshgrid(latd, lond, indexing="ij")
        la, lo = La.ravel(), Lo.ravel()
        try:
            with np.errstate(all="ignore"):
                got = np.asarray(c(np.radians(la), np.radians(lo)), dtype=np.float64)
        except Exception as ex:
            # fall back to scalar calls to locate the failing site
            for x, y in zip(la[:: max(1, len(la) // 200)], lo[:: max(1, len(la) // 200)]):
                try:
                    c(float(np.radians(x)), float(np.radians(y)))
                except Exception as ex2:
                    out.append(("map_lookup_no_exception", tag, [float(x), float(y)], f"{type(ex2).__name__}: {str(ex2)[:60]}"))
                    return
            out.append(("map_lookup_no_exception", tag, "vectorised call", f"{type(ex).__name__}: {str(ex)[:60]}"))
            return
        n += len(la)
        lo = np.where(lo > 180.0, lo - 360.0, lo)  # (sites given in the [0, 360) convention: judged at the equivalent longitude)
        i1 = np.clip(np.searchsorted(lats, la, side="left"), 0, nlat - 1)
        i0 = np.clip(i1 - 1, 0, nlat - 1)
        # a coordinate that IS a node (within degree<->radian rounding) brackets only itself and its neighbours' edge
        j1 = np.clip(np.searchsorted(lons, lo, side="left"), 0, nlon - 1)
        j0 = np.clip(j1 - 1, 0, nlon - 1)
        i2 = np.clip(i1 + 1, 0, nlat - 1)
        j2 = np.clip(j1 + 1, 0, nlon - 1)
        ok = np.zeros(len(la), dtype=bool)
        near_lat = np.abs(lats[i1] - la) < 1e-9
        near_lon = np.abs(lons[j1] - lo) < 1e-9
        for ii, use_i in ((i0, np.ones(len(la), bool)), (i1, np.ones(len(la), bool)), (i2, near_lat)):
            for jj, use_j in ((j0, np.ones(len(la), bool)), (j1, np.ones(len(la), bool)), (j2, near_lon)):
                cand = altmap[ii, jj]
                ok |= use_i & use_j & ((got == cand) | (np.abs(got - cand) <= 1e-12 * np.abs(cand)))
        bad = np.where(~ok)[0]
        for k in bad[:3]:
            out.append(("map_cloud_top_of_the_cell_containing_the_site", tag, [float(la[k]), float(lo[k]), float(altmap[i1[k], j1[k]])], float(got[k])))
        return

    check(lats[::stride], lons[::stride], "nodes")
    # one vectorised call whose sites mix both longitude conventions ([-180, 180] and (180, 360)): element by element
    mid = 0.5 * (lons[:-1] + lons[1:])[:: max(1, stride // 2)]
    check(0.5 * (lats[:-1] + lats[1:])[:: max(1, stride)], np.where(np.arange(len(mid)) % 2 == 0, mid, np.where(mid < 0, mid + 360.0, mid)), "mixed_conventions")
    check(0.5 * (lats[:-1] + lats[1:])[:: max(1, stride)], np.where(mid < 0, mid + 360.0, mid), "wrapped_convention")
    check(np.concatenate([lats[:1], lats[-1:]]), lons[:: max(1, stride // 2)], "poles")
    check(lats[:: max(1, stride // 2)], np.concatenate([lons[:1], lons[-1:]]), "date_line")
    check(0.5 * (lats[:-1] + lats[1:])[:: max(1, stride // 2)], 0.5 * (lons[:-1] + lons[1:])[:: max(1, stride // 2)], "centres")
    # scalar calls (what the kernel does) agree with the vectorised lookup
    sub_la = lats[5::37]
    sub_lo = lons[3::53]
    for x, y in itertools.product(sub_la, sub_lo):
        try:
            s = float(c(float(np.radians(x)), float(np.radians(y))))
            v = float(np.asarray(c(np.array([np.radians(x)]), np.array([np.radians(y)])))[0])
            n += 1
            if s != v:
                out.append(("map_scalar_equals_vectorised", "scalar", v, s))
                break
        except Exception as ex:
            out.append(("map_lookup_no_exception", "scalar", [float(x), float(y)], f"{type(ex).__name__}: {str(ex)[:60]}"))
            break
    # long sequences of scalar lookups on ONE instance (what a run does): three adjacent latitude rows x every longitude
    # node, then the same in reverse order -- any per-instance memo keyed wrongly makes a later lookup return an earlier
    # cell's value
    c2 = CloudTopHeight(cfg)
    i0 = nlat // 2 + 20
    seq = [(i, j) for i in (i0, i0 + 1, i0 + 2) for j in range(nlon)]
    for order in (seq, seq[::-1]):
        for i, j in order:
            la, lo = lats[i], lons[j]
            try:
                got = float(c2(float(np.radians(la)), float(np.radians(lo))))
            except Exception as ex:
                out.append(("map_lookup_no_exception", "sequence", [float(la), float(lo)], f"{type(ex).__name__}: {str(ex)[:60]}"))
                break
            n += 1
            cands = [altmap[a, b] for a in (max(i - 1, 0), i, min(i + 1, nlat - 1)) for b in (max(j - 1, 0), j, min(j + 1, nlon - 1))]
            if not any(got == x or abs(got - x) <= 1e-12 * abs(x) for x in cands):
                out.append(("map_cloud_top_of_the_cell_containing_the_site", "sequence", [float(la), float(lo), float(altmap[i, j])], got))
                break
        else:
            continue
        break
    # scalar lookups on ONE instance that straddle a cell boundary at distances from 1e-9 to 1e-2 degree, in both orders,
    # for every longitude boundary along one row and every latitude boundary along one column: the second lookup must
    # return ITS cell (a memo keyed on rounded coordinates returns the first one's)
    c3 = CloudTopHeight(cfg)
    la_mid = 0.5 * (lats[i0] + lats[i0 + 1])
    lo_mid = 0.5 * (lons[nlon // 3] + lons[nlon // 3 + 1])
    pairs = []
    for d in (1e-9, 1e-6, 1e-3, 1e-2):
        for j in range(1, nlon - 1, max(1, stride // 4)):
            pairs.append(((la_mid, lons[j] - d), (la_mid, lons[j] + d)))
        for i in range(1, nlat - 1, max(1, stride // 4)):
            pairs.append(((lats[i] - d, lo_mid), (lats[i] + d, lo_mid)))
    done = False
    for a, b in pairs:
        for first, second in ((a, b), (b, a)):
            for la, lo in (first, second):
                try:
                    got = float(c3(float(np.radians(la)), float(np.radians(lo))))
                except Exception as ex:
                    out.append(("map_lookup_no_exception", "straddle", [float(la), float(lo)], f"{type(ex).__name__}: {str(ex)[:60]}"))
                    done = True
                    break
                n += 1
                want = altmap[int(np.searchsorted(lats, la)), int(np.searchsorted(lons, lo))]
                if not (got == want or abs(got - want) <= 1e-12 * abs(want)):
                    out.append(("map_cloud_top_of_the_cell_containing_the_site", "straddle", [float(la), float(lo), float(want)], got))
                    done = True
                    break
            if done:
                break
        if done:
            break
    # the result must depend on longitude and on latitude somewhere (a transposed / constant-row lookup does not)
    return out, n


def judge_map_history(seq):
    """several CloudTopHeight objects for different months built one after another IN ONE PROCESS: each must read its
    own month's map (state shared between instances / a cache keyed without the month would show here)."""
    from astropy.io import fits
    from importlib.resources import files

    from nuspacesim.simulation.atmosphere.clouds import CloudTopHeight
    from nuspacesim.simulation.eas_optical import atmospheric_models as atm

    sites = [(12.3, -133.4), (-45.2, 20.1), (60.7, 100.9), (-5.0, -60.0), (80.1, 0.3), (0.2, 179.0)]
    out = []
    for m in seq:
        # (first a model that must be REFUSED: this month in a map version that is not shipped; what the failed attempt
        # leaves behind must not stand in for the month's real map)
        try:
            CloudTopHeight(sim.make_config(extra={"simulation": {"cloud_model": {"id": "pressure_map", "month": m, "version": 99}}}))
        except Exception:
            pass
        cfg = sim.make_config(extra={"simulation": {"cloud_model": {"id": "pressure_map", "month": m}}})
        c = CloudTopHeight(cfg)
        with fits.open(files("nuspacesim.data.cloud_maps") / f"nss_map_CloudTopPressure_{m:02d}.v0.fits") as h:
            mp = np.array(h[0].data, dtype=np.float64)
        lats = np.linspace(-90, 90, mp.shape[0])
        lons = np.linspace(-180, 180, mp.shape[1])
        for la, lo in sites:
            got = float(c(math.radians(la), math.radians(lo)))
            i1 = int(np.searchsorted(lats, la))
            j1 = int(np.searchsorted(lons, lo))
            cands = [float(atm.us_std_atm_altitude_from_pressure(mp[i, j])) for i in (i1 - 1, i1) for j in (j1 - 1, j1)]
            if not any(abs(got - x) <= 1e-9 * max(1.0, abs(x)) for x in cands):
                out.append(("map_of_the_configured_month", f"month {m} site {(la, lo)}: one of {cands}", got))
                break
    return out


CALLBACKS = ["omitted", "none", "below", "mid", "overcast", "raises"]  # ("raises": the batch fails part-way; what follows it must not notice)


def _batch_call(obj, how, which):
    """the batch entry point with the cloud callback given as `how`"""
    b = np.radians(np.array([5.0, 20.0, 3.0]))
    a = np.array([2.0, 8.0, 0.5])
    E = np.array([1.0, 10.0, 0.1])
    la = np.array([0.1, 0.2, -0.3])
    lo = np.array([0.3, -1.0, 2.0])
    def refusing(x, y):
        # an overcast sky whose lookup fails at the LAST event's site: the batch call raises part-way
        if float(x) == -0.3:
            raise ValueError("injected cloud-lookup failure")
        return np.float64(100.0)

    cf = {"below": lambda x, y: np.float64(-1.0), "mid": lambda x, y: np.float64(6.0), "overcast": lambda x, y: np.float64(100.0), "raises": refusing}
    with sim.owned(0, "synchronous"), own.quiet(), np.errstate(all="ignore"):
        try:
            if which == "kernel":
                r = obj(b, a, E, la, lo) if how == "omitted" else obj(b, a, E, la, lo, None if how == "none" else cf[how])
            else:
                args = (b, a, E, la, lo)
                r = obj(*args) if how == "omitted" else obj(*args, cloudf=None if how == "none" else cf[how])
        except ValueError as ex:
            if how == "raises" and "injected" in str(ex):
                return (b"raised",)
            raise
    return tuple(np.asarray(x, dtype=np.float64).tobytes() for x in r)


def judge_callback_history(which, seq):
    """ONE kernel (or ONE optical stage) called batch after batch with the cloud callback omitted, None, or one of three
    callbacks: every batch returns what a fresh object returns for that callback -- an omitted callback is the cloud-free
    sky, whatever an earlier batch was given. Two passes (fresh expectations first, then the uninterrupted history)."""
    from nuspacesim.simulation.eas_optical.cphotang import CphotAng
    from nuspacesim.simulation.eas_optical.eas import EAS

    # (the stage under test is configured with a cloud model, the reference stage with a clear sky: the configuration's
    # cloud model reaches the kernel through the callback argument only)
    mk = (lambda: CphotAng(525.0)) if which == "kernel" else (lambda: EAS(sim.make_config(cloud="mono")))
    mk_ref = (lambda: CphotAng(525.0)) if which == "kernel" else (lambda: EAS(sim.make_config()))
    want = [_batch_call(mk_ref(), CALLBACKS[i], which) for i in seq]
    o = mk()
    for k, i in enumerate(seq):
        got = _batch_call(o, CALLBACKS[i], which)
        if got != want[k]:
            g, w = (("raised" if x[0] == b"raised" else np.frombuffer(x[0], dtype=np.float64)[:3].tolist()) for x in (got, want[k]))
            return [("callback_of_this_batch_only", f"batch {k} of {[CALLBACKS[j] for j in seq]} on one {which}: {w}", g)]
    return []


def judge_forms(f, month=7):
    """input forms for the pressure-map lookup: site latitude / longitude as narrower arrays"""
    from nuspacesim.simulation.atmosphere.clouds import CloudTopHeight

    from .. import forms

    c = CloudTopHeight(sim.make_config(extra={"simulation": {"cloud_model": {"id": "pressure_map", "month": month}}}))
    return forms.judge(lambda la, lo: c(la, lo), [np.array([0.0, 1.0, -1.0, 0.5, -1.5]), np.array([0.0, 2.0, -3.0, 3.0, 1.0])], tuple(f), what="pressure-map cloud top")


def _map_job(a):
    return judge_map(*a)


def run(ctx):
    from .. import pipeline

    # wiring: the run's stored columns are this stage applied to the run's stored columns (see nssmc/pipeline.py)
    pipeline.run_in(ctx, ['optical'], ('A', 'B'))
    tier = ctx.tier
    evs = events(tier)
    res = par.pmap(judge_event, evs)
    nk = 0
    for ev, (v, n, sig) in zip(evs, res):
        nk += n
        ctx.tick(n, ("kernel", ev, tuple(sig)))
        seen = set()
        for c, ct, e, o in v:
            if c in seen:
                continue
            seen.add(c)
            ctx.violation(c, {"kind": "kernel", "ev": list(ev), "ct": ct}, e, o)
    ctx.cov["kernel_runs_with_cloud"] = nk
    ctx.sample({"kind": "kernel", "event(beta_rad, alt_km, E_100PeV)": list(evs[5]), "cloud_tops": "adapted to the event's segments, e.g. zs[argmax N] +- 1 ulp"})
    for kind, alt in [("none", None), ("mono", -math.inf), ("mono", 0.0), ("mono", 3.7), ("mono", 20.0)]:
        v, n, val = judge_constant(kind, alt)
        ctx.tick(n, ("const", kind, alt))
        for c, e, o in v:
            ctx.violation(c, {"kind": "const", "model": kind, "alt": alt}, e, o)
    from .. import forms as _forms

    for f in _forms.product(2, per_array=("f4", "i8")):
        ctx.tick(5, ("forms", f))
        for c, e, o in judge_forms(f):
            ctx.violation(c, {"kind": "forms", "forms": list(f)}, e, o)
    months = [1, 7] if tier == "quick" else list(range(1, 13))
    stride = 8 if tier == "quick" else 1
    res = par.pmap(_map_job, [(m, stride) for m in months])
    nm = 0
    for m, (v, n) in zip(months, res):
        nm += n
        ctx.tick(n, ("map", m))
        seen = set()
        for c, tag, e, o in v:
            if (c, tag) in seen:
                continue
            seen.add((c, tag))
            ctx.violation(c, {"kind": "map", "month": m, "stride": stride, "tag": tag}, e, o)
    ctx.cov["map_lookups"] = nm
    for seq in ([1, 7, 12, 7, 1, 4], [7, 1], [12, 11, 12]):
        ctx.tick(6 * len(seq), ("map_history", tuple(seq)))
        for c, e, o in judge_map_history(seq):
            ctx.violation(c, {"kind": "map_history", "seq": seq}, e, o)
    nh = 0
    for which in ("kernel", "stage"):
        for sq in itertools.product(range(len(CALLBACKS)), repeat=2):
            nh += 1
            ctx.tick(6, ("callback_history", which) + tuple(sq))
            for c, e, o in judge_callback_history(which, sq):
                ctx.violation(c, {"kind": "callback_history", "which": which, "seq": list(sq)}, e, o)
    ctx.cov["callback_histories"] = nh
    ctx.cov["months"] = months
    ctx.sample({"kind": "map", "month": 7, "site_deg": [12.5, -133.4], "input": "radians, longitude in [-pi, pi]"})


def replay(case):
    if isinstance(case, dict) and case.get("kind") == "pipeline":
        from .. import pipeline

        return pipeline.replay(case)
    k = case["kind"]
    if k == "callback_history":
        return judge_callback_history(case["which"], tuple(case["seq"]))
    if k == "kernel":
        v, _, _ = judge_event(tuple(case["ev"]))
        return [(c, e, o) for c, ct, e, o in v if ct == case["ct"] or (math.isnan(ct) and math.isnan(case["ct"]))]
    if k == "const":
        return judge_constant(case["model"], case["alt"])[0]
    if k == "forms":
        return judge_forms(case["forms"])
    if k == "map_history":
        return judge_map_history(case["seq"])
    if k == "map":
        v, _ = judge_map(case["month"], case["stride"])
        return [(c, e, o) for c, tag, e, o in v if tag == case["tag"]]
    return []
