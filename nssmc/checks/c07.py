"""C07 — tau kinematics and decay point (E1 lattice explorer)."""

import itertools
import math

import numpy as np

from ..floats import ulps
from ..own import RngStub

PID = "C07"
LEVEL = "exploration"
RULE = (
    "full product of alphabets. Part A (decay geometry, EAS.altDec with explicit u): tau energy {exhaustively computed "
    "smallest reachable energy of each shipped table, 3 TeV, 10^4..10^12 GeV} x emergence angle {0,1e-9,1,10,42-,42 deg} "
    "x u {denormal..1 edges + interior grid}. Part B (Taus.__call__ with owned RNG): table version x every other "
    "log-energy node x angle alphabet x u alphabet x etau_frac. Distinct/non-trivial by (part, energy decade, angle "
    "index, u class, table version, etau_frac)."
)
ASSUMPTIONS = [
    "Earth radius 6378.1 km (astropy nominal R_earth), c = 299792.458 km/s, tau0 = 2.903e-13 s, m_tau = 1.77686 GeV are the documented constants",
    "speed < 1 strictly is demanded only for gamma < 2^26 (above that the correctly rounded double is 1.0)",
    "'exponentially distributed with mean lambda' is decided through the inverse-survival identity exp(-l/lambda)=u at every alphabet point plus convergence of the equal-weight mid-point mean; no limit is proved",
]

R = 6378.1
C_KM = 299792.458
TAU0 = 2.903e-13
MTAU = 1.77686


def min_reachable_energy(version):
    from importlib.resources import files

    from nuspacesim.utils.grid import NssGrid

    cdf = NssGrid.read(files("nuspacesim.data.nupyprop_tables") / f"nu2tau_cdf.{version}.h5", format="hdf5")
    names = cdf.axis_names
    d = np.moveaxis(cdf.data, [names.index("log_e_nu"), names.index("beta_rad"), names.index("e_tau_frac")], [0, 1, 2])
    z = cdf["e_tau_frac"]
    le = cdf["log_e_nu"]
    lastzero = (d <= d[..., :1]).sum(axis=-1) - 1
    E = z[lastzero] * (10.0 ** le)[:, None]
    return float(E.min()), cdf


def u_alphabet(tier):
    m = 10 if tier == "quick" else 40
    return np.array(sorted(set([5e-324, 1e-300, 1e-16, 2.0**-53, 1 - 2.0**-53, 1.0] + [k / m for k in range(1, m)])))


def beta_alphabet():
    b42 = math.radians(42.0)
    return np.array([0.0, 1e-9, math.radians(1.0), math.radians(10.0), np.nextafter(b42, 0), b42])


def judge_altdec(E, beta, u):
    """E, beta, u: 1-d arrays of one batch. returns list of (clause, index, expected, observed)."""
    from nuspacesim.config import NssConfig
    from nuspacesim.simulation.eas_optical.eas import EAS

    E = np.asarray(E, dtype=np.float64)
    beta = np.asarray(beta, dtype=np.float64)
    u = np.asarray(u, dtype=np.float64)
    gamma = E / MTAU
    speed = np.sqrt((gamma - 1.0) * (gamma + 1.0)) / gamma
    eas = _eas()
    b0, s0, g0, u0 = beta.copy(), speed.copy(), gamma.copy(), u.copy()
    alt, ln = eas.altDec(beta, speed, gamma, u)
    out = []
    # what the previous call on this (shared, long-lived) stage object returned is still what it returned
    for a, d in _HELD:
        if a.tobytes() != d:
            out.append(("results_of_the_previous_call_left_intact", 0, "the arrays as returned", "overwritten by this call"))
            break
    _HELD[:] = [(x, x.tobytes()) for x in (alt, ln) if isinstance(x, np.ndarray)]
    alt = np.asarray(alt)
    ln = np.asarray(ln)
    lam = gamma * speed * C_KM * TAU0
    lref = -lam * np.log(u)
    tol = 1e-12 * np.maximum(np.abs(lref), 1e-300)
    for i in np.where(~(np.abs(ln - lref) <= tol))[0]:
        out.append(("decay_length", i, lref[i], ln[i]))
    for i in np.where(~(ln >= 0))[0]:
        out.append(("length_nonneg", i, ">=0", ln[i]))
    # inverse-survival identity
    with np.errstate(all="ignore"):
        surv = np.abs(ln / lam + np.log(u))
    for i in np.where(~(surv <= 1e-12 * np.maximum(1.0, np.abs(np.log(u)))))[0]:
        out.append(("survival_identity", i, float(u[i]), float(np.exp(-ln[i] / lam[i]))))
    # altitude from explicit vectors
    px = lref * np.cos(beta)
    pz = R + lref * np.sin(beta)
    aref = np.hypot(px, pz) - R
    atol = 1e-9 + 1e-12 * np.abs(aref)
    for i in np.where(~(np.abs(alt - aref) <= atol))[0]:
        out.append(("decay_altitude", i, aref[i], alt[i]))
    for i in np.where(~(alt >= -1e-9))[0]:
        out.append(("altitude_nonneg", i, ">=0", alt[i]))
    for name, a, b in (("beta", beta, b0), ("tauBeta", speed, s0), ("tauLorentz", gamma, g0), ("u", u, u0)):
        if a.tobytes() != b.tobytes():
            out.append(("inputs_unmodified", 0, name, "changed"))
    return out, alt, ln


_EAS = None
_HELD = []


def _eas():
    global _EAS
    if _EAS is None:
        from nuspacesim.config import NssConfig
        from nuspacesim.simulation.eas_optical.eas import EAS

        _EAS = EAS(NssConfig())
    return _EAS


def judge_taus(version, frac, logE, beta, u):
    """Taus.__call__ on a batch with one shared u (RNG owned)."""
    from nuspacesim.config import NssConfig, Simulation
    from nuspacesim.simulation.taus.taus import Taus

    try:
        cfg = NssConfig(simulation=Simulation(tau_shower=Simulation.NuPyPropShower(etau_frac=frac, table_version=str(version))))
        t = _taus(version, frac)
    except Exception as ex:
        # every etau_frac in (0, 1] and every shipped table version is a valid configuration
        return [("valid_configuration_accepted", 0, f"etau_frac={frac}, table_version={version} accepted", f"{type(ex).__name__}: {str(ex)[:100]}")], np.zeros(len(beta))
    stub = RngStub(fn=lambda idx, n: np.full(n, u))
    with stub.installed():
        tauBeta, tauLorentz, tauEnergy, showerEnergy, pexit = t(np.array(beta), np.array(logE))
    out = []
    g = tauEnergy / MTAU
    for i in np.where(tauLorentz != g)[0]:
        out.append(("lorentz", i, g[i], tauLorentz[i]))
    for i in np.where(~(tauLorentz >= 1))[0]:
        out.append(("lorentz_ge_1", i, ">=1", tauLorentz[i]))
    with np.errstate(all="ignore"):
        sref = np.sqrt((g - 1.0) * (g + 1.0)) / g
    bad = ~(ulps(tauBeta, sref) <= 4)
    for i in np.where(bad)[0]:
        out.append(("speed", i, sref[i], tauBeta[i]))
    bad = ~((tauBeta > 0) & (tauBeta <= 1) & ((tauBeta < 1) | (g >= 2.0**26)))
    for i in np.where(bad)[0]:
        out.append(("speed_range", i, "(0,1)", tauBeta[i]))
    sh = frac * tauEnergy / 1e8
    for i in np.where(~(ulps(showerEnergy, sh) <= 2))[0]:
        out.append(("shower_energy", i, sh[i], showerEnergy[i]))
    for i in np.where(~(tauEnergy <= 10.0 ** np.asarray(logE) * (1 + 1e-12)))[0]:
        out.append(("tau_le_nu", i, float(10.0 ** logE[i]), tauEnergy[i]))
    return out, tauEnergy


_TAUS = {}


def _taus(version, frac):
    from nuspacesim.config import NssConfig, Simulation
    from nuspacesim.simulation.taus.taus import Taus

    k = (version, frac)
    if k not in _TAUS:
        cfg = NssConfig(simulation=Simulation(tau_shower=Simulation.NuPyPropShower(etau_frac=frac, table_version=str(version))))
        _TAUS[k] = Taus(cfg)
    return _TAUS[k]


def run(ctx):
    from .. import pipeline

    # wiring: the run's stored columns are this stage applied to the run's stored columns (see nssmc/pipeline.py)
    pipeline.run_in(ctx, ['taus', 'decay'], ('A', 'B', 'C', 'D'), plots=['taus_density_beta', 'taus_histogram', 'taus_overview', 'taus_pexit'])
    tier = ctx.tier
    emins = {}
    for v in (1, 2, 3):
        emins[v], cdf = min_reachable_energy(v)
        ctx.tick(cdf.data.shape[0] * cdf.data.shape[1], ("emin", v))
        if not (emins[v] > MTAU):
            ctx.violation("min_energy_above_mass", {"kind": "emin", "version": v}, f">{MTAU}", emins[v])
    ctx.cov["smallest_reachable_tau_energy_GeV"] = emins
    Es = sorted(set(list(emins.values()) + [3000.0] + [10.0**k for k in np.arange(4, 12.01, 0.5 if tier == "quick" else 0.25)]))
    betas = beta_alphabet()
    us = u_alphabet(tier)
    ctx.cov["alphabet"] = {"E": len(Es), "beta": len(betas), "u": len(us)}
    # Part A
    grid = np.array(list(itertools.product(Es, betas, us)))
    E, b, u = grid[:, 0], grid[:, 1], grid[:, 2]
    v, alt, ln = judge_altdec(E, b, u)
    ctx.tick(len(grid))
    ctx.add_sig_rows("A", np.floor(np.log10(E)).astype(int), np.searchsorted(betas, b), (u < 1e-8).astype(int) + 2 * (u > 1 - 1e-8))
    for c, i, e, o in v:
        ctx.violation(c, {"kind": "altdec", "E": [E[i]], "beta": [b[i]], "u": [u[i]]}, e, o)
    ctx.sample({"E_GeV": E[7], "beta_rad": b[7], "u": u[7], "lenDec_km": ln[7], "altDec_km": alt[7]})
    # monotonicity along lattice lines
    A = alt.reshape(len(Es), len(betas), len(us))
    L = ln.reshape(len(Es), len(betas), len(us))
    G = grid.reshape(len(Es), len(betas), len(us), 3)
    dl = np.diff(L, axis=2)
    for idx in zip(*np.where(dl > 0)):
        i, j, k = idx
        ctx.violation("length_decreasing_in_u", {"kind": "altdec_pair", "E": [Es[i]] * 2, "beta": [betas[j]] * 2, "u": [us[k], us[k + 1]], "mono": "len_u"}, "non-increasing", [L[i, j, k], L[i, j, k + 1]])
    da = np.diff(A, axis=1)
    for idx in zip(*np.where(da < -1e-9 - 1e-12 * np.abs(A[:, 1:, :]))):
        i, j, k = idx
        ctx.violation("altitude_increasing_in_beta", {"kind": "altdec_pair", "E": [Es[i]] * 2, "beta": [betas[j], betas[j + 1]], "u": [us[k]] * 2, "mono": "alt_beta"}, "non-decreasing", [A[i, j, k], A[i, j + 1, k]])
    da = np.diff(A, axis=2)  # u increasing => length decreasing => altitude non-increasing
    for idx in zip(*np.where(da > 1e-9 + 1e-12 * np.abs(A[:, :, 1:]))):
        i, j, k = idx
        ctx.violation("altitude_increasing_in_length", {"kind": "altdec_pair", "E": [Es[i]] * 2, "beta": [betas[j]] * 2, "u": [us[k], us[k + 1]], "mono": "alt_len"}, "non-increasing in u", [A[i, j, k], A[i, j, k + 1]])
    ctx.tick(dl.size + 2 * da.size)
    # mean of the decay length by equal-weight mid-point quadrature
    for Eg in (emins[3], 1e6, 1e10):
        prev = None
        for m in (64, 256, 1024, 4096):
            um = (np.arange(m) + 0.5) / m
            v2, _, lnm = judge_altdec(np.full(m, Eg), np.full(m, 0.1), um)
            g = Eg / MTAU
            lam = math.sqrt((g - 1) * (g + 1)) * C_KM * TAU0
            err = abs(lnm.mean() / lam - 1.0)
            ctx.tick(m, ("mean", Eg, m))
            if not (err <= 1.0 / m) or (prev is not None and not err < prev):
                ctx.violation("mean_decay_length", {"kind": "mean", "E": Eg, "m": m}, f"|mean/lambda-1|<=1/{m} and decreasing", err)
            prev = err
    # the shared stage object called again and again with batches of ONE shape (what a scan over energies does): every
    # call judged as above, and what the call before it returned is left as returned
    for rep, (Eg, bb) in enumerate(((1e6, 0.1), (3e7, 0.3), (1e9, 0.02), (1e6, 0.1))):
        um = (np.arange(16) + 0.5) / 16
        v2, _, _ = judge_altdec(np.full(16, Eg), np.full(16, bb), um)
        ctx.tick(16, ("same_shape_reuse", rep))
        for c, i, e, o in v2[:3]:
            ctx.violation(c, {"kind": "reuse", "rep": rep}, e, o)
    # Part B
    fracs = [1e-3, 0.5, 1.0]
    for ver in (1, 2, 3):
        cdf = _taus(ver, 0.5).tau_cdf_grid
        nodes = cdf["log_e_nu"]
        les = nodes[:: 2 if tier == "quick" else 1]
        les = np.unique(np.concatenate([les, [nodes[0], nodes[-1], 0.5 * (nodes[3] + nodes[4])]]))
        bnodes = cdf["beta_rad"]
        bs = np.unique(np.concatenate([betas, [bnodes[0], bnodes[-1], 0.5 * (bnodes[10] + bnodes[11]), 0.5 * bnodes[0]]]))
        bs = bs[bs <= bnodes[-1]]
        ctx.cov.setdefault("part_B", {})[f"v{ver}"] = {"logE": len(les), "beta": len(bs), "beta_max_table_minus_radians42": float(bnodes[-1] - math.radians(42.0))}
        g2 = np.array(list(itertools.product(les, bs)))
        for frac in fracs if (tier == "thorough" or ver == 3) else [0.5]:
            for uu in us:
                if uu > 1 - 1e-12 or uu < 1e-300:
                    continue  # closed ends of the CDF range belong to C04 (property: u strictly inside the row's range)
                v3, tE = judge_taus(ver, frac, g2[:, 0], g2[:, 1], uu)
                ctx.tick(len(g2), ("B", ver, frac, float(uu)))
                for c, i, e, o in v3:
                    ctx.violation(c, {"kind": "taus", "version": ver, "frac": frac, "logE": [g2[i, 0]], "beta": [g2[i, 1]], "u": float(uu)}, e, o)
    # one long-lived Taus object, etau_frac changed between calls (a parameter scan re-using the loaded tables): set in
    # place, by replacing the tau_shower section, or by replacing the whole simulation section -- all sequences
    import itertools as _it

    from .. import forms as _forms

    for which, nin in (("taus", 2), ("decay", 4)):
        for f in _forms.product(nin):
            ctx.tick(6, ("forms", which, f))
            for c, e, o in judge_forms(which, f):
                ctx.violation(c, {"kind": "forms", "which": which, "forms": list(f)}, e, o)
    steps = [(h, f) for h in FRAC_HOWS for f in (0.1, 1.0, 0.25)]
    nfh = 0
    for d in ((1, 2) if ctx.tier == "quick" else (1, 2, 3)):
        for sq in _it.product(range(len(steps)), repeat=d):
            seq = [list(steps[i]) for i in sq]
            nfh += 1
            ctx.tick(2 * (d + 1), ("frac_history",) + tuple(sq))
            for c, e, o in judge_frac_history(seq):
                ctx.violation(c, {"kind": "frac_history", "seq": seq}, e, o)
    ctx.cov["etau_frac_histories"] = nfh
    ctx.sample({"part": "B", "version": 3, "etau_frac": 0.5, "logE": float(g2[3, 0]), "beta_rad": float(g2[3, 1]), "u": float(us[5]), "tauEnergy_GeV": float(tE[3])})


def judge_forms(which, f):
    """input forms for Taus.__call__ (angles, log-energies) and EAS.altDec (angle, speed, Lorentz factor, u)"""
    from nuspacesim.config import NssConfig, Simulation
    from nuspacesim.simulation.eas_optical.eas import EAS
    from nuspacesim.simulation.taus.taus import Taus

    from .. import forms

    if which == "taus":
        t = Taus(NssConfig(simulation=Simulation(tau_shower=Simulation.NuPyPropShower(etau_frac=0.5, table_version="3"))))

        def call(bb, ll):
            with RngStub(fn=lambda idx, n: np.full(n, 0.37)).installed():
                return tuple(t(bb, ll))

        return forms.judge(call, [np.array([0.0, 0.001, 0.25, 0.5, 0.7, 1.0]), np.array([7.0, 8.0, 9.0, 10.0, 11.0, 12.0])], tuple(f), what="Taus.__call__")
    e = EAS(NssConfig())
    cols = [np.array([0.0, 0.25, 0.5, 0.7, 1.0]), np.array([1.0, 0.5, 0.999, 1.0, 0.0]), np.array([2.0, 1e3, 1e6, 1e9, 1.0]), np.array([0.5, 0.25, 1.0, 0.125, 1.0])]
    with np.errstate(all="ignore"):
        return forms.judge(lambda a, b_, c_, d: e.altDec(a, b_, c_, u=d), cols, tuple(f), what="EAS.altDec")


FRAC_HOWS = ["set", "section", "simulation"]


def judge_frac_history(seq):
    """ONE Taus object on one live configuration; between calls etau_frac is changed as (how, value): set in place, the
    tau_shower section replaced, or the whole simulation section replaced; every call: shower energy = the fraction IN
    FORCE x tau energy / 1e8"""
    from nuspacesim.config import NssConfig, Simulation
    from nuspacesim.simulation.taus.taus import Taus

    cfgm = NssConfig(simulation=Simulation(tau_shower=Simulation.NuPyPropShower(etau_frac=0.5, table_version="3")))
    tm = Taus(cfgm)
    frac = 0.5
    for step in range(len(seq) + 1):
        if step:
            how, frac = seq[step - 1]
            try:
                if how == "set":
                    cfgm.simulation.tau_shower.etau_frac = frac
                elif how == "section":
                    cfgm.simulation.tau_shower = Simulation.NuPyPropShower(etau_frac=frac, table_version="3")
                else:
                    cfgm.simulation = cfgm.simulation.model_copy(update={"tau_shower": Simulation.NuPyPropShower(etau_frac=frac, table_version="3")})
            except Exception as ex:
                return [("valid_configuration_accepted", f"etau_frac={frac} ({how}) accepted", f"{type(ex).__name__}: {str(ex)[:100]}")]
        # fractions outside (0, 1] offered to the live configuration: where the assignment is REFUSED, the fraction in
        # force is the last accepted one (a refusal that leaves the refused value behind shows in the next call); where it
        # is accepted silently (the unchanged tree does not validate assignments) the value is withdrawn again
        for badfrac in (1.5, 0.0, -0.25):
            try:
                cfgm.simulation.tau_shower.etau_frac = badfrac
            except Exception:
                continue
            cfgm.simulation.tau_shower.etau_frac = frac
        with RngStub(fn=lambda idx, n: np.full(n, 0.37)).installed():
            tb, tl, te, se, pe = tm(np.array([0.1, 0.3]), np.array([8.0, 10.0]))
        exp = frac * te / 1e8
        if not np.all(ulps(se, exp) <= 2):
            return [("shower_energy", f"after {seq[:step]}: {exp.tolist()}", np.asarray(se).tolist())]
    return []


def replay(case):
    if isinstance(case, dict) and case.get("kind") == "pipeline":
        from .. import pipeline

        return pipeline.replay(case)
    k = case["kind"]
    if k == "emin":
        e, _ = min_reachable_energy(case["version"])
        return [] if e > MTAU else [("min_energy_above_mass", f">{MTAU}", e)]
    if k == "altdec":
        v, _, _ = judge_altdec(case["E"], case["beta"], case["u"])
        return [(c, e, o) for c, i, e, o in v]
    if k == "altdec_pair":
        v, alt, ln = judge_altdec(case["E"], case["beta"], case["u"])
        out = [(c, e, o) for c, i, e, o in v]
        if case["mono"] == "len_u" and ln[1] > ln[0]:
            out.append(("length_decreasing_in_u", "non-increasing", ln.tolist()))
        if case["mono"] == "alt_beta" and alt[1] < alt[0] - 1e-9 - 1e-12 * abs(alt[1]):
            out.append(("altitude_increasing_in_beta", "non-decreasing", alt.tolist()))
        if case["mono"] == "alt_len" and alt[1] > alt[0] + 1e-9 + 1e-12 * abs(alt[1]):
            out.append(("altitude_increasing_in_length", "non-increasing in u", alt.tolist()))
        return out
    if k == "mean":
        m, Eg = case["m"], case["E"]
        um = (np.arange(m) + 0.5) / m
        _, _, lnm = judge_altdec(np.full(m, Eg), np.full(m, 0.1), um)
        g = Eg / MTAU
        lam = math.sqrt((g - 1) * (g + 1)) * C_KM * TAU0
        err = abs(lnm.mean() / lam - 1.0)
        # 'decreasing' part needs the previous level
        if m > 64:
            m0 = m // 4
            u0 = (np.arange(m0) + 0.5) / m0
            _, _, l0 = judge_altdec(np.full(m0, Eg), np.full(m0, 0.1), u0)
            prev = abs(l0.mean() / lam - 1.0)
        else:
            prev = np.inf
        return [] if (err <= 1.0 / m and err < prev) else [("mean_decay_length", f"<=1/{m}", err)]
    if k == "reuse":
        out = []
        _HELD[:] = []
        for rep, (Eg, bb) in enumerate(((1e6, 0.1), (3e7, 0.3), (1e9, 0.02), (1e6, 0.1))):
            v2, _, _ = judge_altdec(np.full(16, Eg), np.full(16, bb), (np.arange(16) + 0.5) / 16)
            if rep == case["rep"]:
                out = [(c, e, o) for c, i, e, o in v2]
        return out
    if k == "frac_history":
        return judge_frac_history(case["seq"])
    if k == "forms":
        return judge_forms(case["which"], case["forms"])
    if k == "taus":
        v, _ = judge_taus(case["version"], case["frac"], np.array(case["logE"]), np.array(case["beta"]), case["u"])
        return [(c, e, o) for c, i, e, o in v]
    return []
