"""C14 — a full run is reproducible, channel-isolated and structurally complete (E3a over configurations)."""

import itertools
import math
import os
import shutil
import tempfile
import warnings

import numpy as np

from .. import own, par, schedule, sim

PID = "C14"
LEVEL = "model_checking"
RULE = (
    "configuration cross product {Diffuse,Target} x {mono,power-law} x {no cloud, uniform cloud, pressure map} x "
    "{optical, radio, both} x detector altitude x seeds {VERIF_SEED, ...}; for every (configuration, seed) the whole "
    "compute() is executed under the synchronous scheduler and under the controlled `threads` and `processes` schedulers "
    "in EVERY completion order of the shower stage's partition tasks (stateless DFS with prefix replay on the real dask "
    "scheduler loop), plus one un-controlled real `threads` and `processes` run; all tables of one (configuration, seed) "
    "must be byte-identical. Channel isolation compares 'both' with the single-channel runs; structural clauses are "
    "evaluated on every table; zero-survivor configurations included. Process-level histories: every sequence of preludes (importing every submodule, other runs in other "
    "modes / tables / schedulers, configuration parsing incl. rejected inputs, grid files, stand-alone stage calls, failed runs, user changes of numpy settings "
    "and of the working directory) up to depth 1 (quick) / 2 (thorough), each in an interpreter of its own, followed by a fixed probe (two seeded runs, "
    "stage calls, accept/reject outcomes) that must equal the probe of a fresh process byte for byte. States = complete schedules executed; distinct = "
    "(configuration, scheduler, workers, number of distinct outcomes)."
)
ASSUMPTIONS = [
    "the clock (simTime) is frozen and numpy's global generator is seeded by the harness, as the property's premise says",
    "completion orders are owned at the level dask's scheduler loop can observe them; real OS scheduling only through the un-controlled runs",
]

MTAU = 1.77686
R = 6378.1
OPT_COLS = ["numPEs", "costhetaChEff", "tmcintopt"]
RAD_COLS = ["EFields", "tmcintrad"]
OPT_KEYS = ["OMCINT", "OMCINTGO", "ONEVPASS", "OMCINTUN"]
RAD_KEYS = ["RMCINT", "RMCINTGO", "RNEVPASS", "RMCINTUN"]
STAGE_COLS = ["beta_rad", "theta_rad", "path_len", "init_lat", "init_lon", "log_e_nu", "tauBeta", "tauLorentz", "tauEnergy", "showerEnergy", "tauExitProb", "altDec", "lenDec"]


def mkcfg(spec):
    return sim.make_config(mode=spec["mode"], spectrum=spec["spectrum"], cloud=spec["cloud"], optical=spec["optical"], radio=spec["radio"], altitude=spec["alt"], n=spec["n"], logE=spec.get("logE"), extra=spec.get("extra"))


def run_once(spec, seed, scheduler="synchronous", workers=2, chooser=None, real=False, **compute_kw):
    import dask

    import nuspacesim

    cfg = mkcfg(spec)
    with warnings.catch_warnings():
        warnings.simplefilter("ignore")
        with own.frozen_clock(), own.quiet():
            if scheduler == "synchronous" or real:
                ctxm = dask.config.set(scheduler=scheduler, **({"num_workers": workers} if real else {}))
                pb = own.null_progress() if not real else _nullctx()
                with pb, ctxm:
                    np.random.seed(seed)
                    return nuspacesim.compute(cfg, **compute_kw)
            with own.null_progress(), schedule.controlled_dask(scheduler, workers, chooser, 1):
                np.random.seed(seed)
                return nuspacesim.compute(cfg)


class _nullctx:
    def __enter__(self):
        return self

    def __exit__(self, *a):
        return False


def col_digest(t, names=None):
    out = {}
    from astropy.time import Time

    for n in t.colnames if names is None else names:
        if n not in t.colnames:
            continue
        c = t[n]
        if isinstance(c, Time):
            b = np.asarray(c.jd1).tobytes() + np.asarray(c.jd2).tobytes()
        else:
            a = np.ascontiguousarray(np.asarray(c))
            b = str(a.dtype).encode() + str(a.shape).encode() + a.tobytes()
        out[n] = b
    return out


def meta_of(t):
    return {k: (v[0] if isinstance(v, tuple) else v) for k, v in t.meta.items()}


def structural(spec, seed, t):
    out = []
    cfg = mkcfg(spec)
    n = len(t)
    # one row per surviving trajectory (the geometry stage is the first consumer of the generator)
    with warnings.catch_warnings():
        warnings.simplefilter("ignore")
        np.random.seed(seed)
        if spec["mode"] == "Diffuse":
            from nuspacesim.simulation.geometry.region_geometry import RegionGeom

            g = RegionGeom(cfg)
            with np.errstate(all="ignore"):
                g.throw(spec["n"])
            surv = int(np.sum(g.event_mask))
        else:
            from nuspacesim.simulation.geometry.region_geometry import RegionGeomToO

            g = RegionGeomToO(cfg)
            g.throw(spec["n"])
            surv = len(g.pathLens())
    if n != surv:
        out.append(("one_row_per_surviving_trajectory", surv, n))
    m = meta_of(t)
    if n == 0:
        need = ["beta_rad", "theta_rad", "path_len"]
        for c in need:
            if c not in t.colnames:
                out.append(("empty_table_is_valid", c, "missing"))
        return out
    want = list(STAGE_COLS) + (["times"] if spec["mode"] == "Target" else [])
    if spec["optical"]:
        want += OPT_COLS[:2] + (["tmcintopt"] if spec["mode"] == "Target" else [])
    if spec["radio"]:
        want += RAD_COLS[:1] + (["tmcintrad"] if spec["mode"] == "Target" else [])
    for c in want:
        if c not in t.colnames:
            out.append(("stage_columns_present", c, "missing"))
        elif len(t[c]) != n:
            out.append(("stage_columns_length", n, len(t[c])))
    for keys, on in ((OPT_KEYS, spec["optical"]), (RAD_KEYS, spec["radio"])):
        for k in keys:
            if on and k not in m:
                out.append(("integral_keywords_of_enabled_channel", k, "missing"))
            if not on and k in m:
                out.append(("no_keywords_of_disabled_channel", k, "present"))
    for cols, on in ((OPT_COLS, spec["optical"]), (RAD_COLS, spec["radio"])):
        for c in cols:
            if not on and c in t.colnames:
                out.append(("no_columns_of_disabled_channel", c, "present"))
    if any(c not in t.colnames for c in STAGE_COLS):
        return out
    f = lambda c: np.asarray(t[c], dtype=float)
    if not np.all(f("tauLorentz") == f("tauEnergy") / MTAU):
        out.append(("cross_stage_lorentz", "tauEnergy/m_tau", "differs"))
    frac = cfg.simulation.tau_shower.etau_frac
    if not np.all(np.abs(f("showerEnergy") - frac * f("tauEnergy") / 1e8) <= 1e-15 * np.abs(f("showerEnergy"))):
        out.append(("cross_stage_shower_energy", "frac*tauEnergy/1e8", "differs"))
    alt_ref = np.sqrt(R * R + f("lenDec") ** 2 + 2 * R * f("lenDec") * np.sin(f("beta_rad"))) - R
    if not np.all(np.abs(f("altDec") - alt_ref) <= 1e-9 + 1e-12 * np.abs(alt_ref)):
        out.append(("cross_stage_decay_triangle", "altitude of (lenDec, beta)", "differs"))
    if not np.all(f("tauEnergy") <= 10.0 ** f("log_e_nu") * (1 + 1e-12)):
        out.append(("cross_stage_tau_le_nu", "tauEnergy <= E_nu", "violated"))
    if not (np.all(np.abs(f("init_lat")) <= np.pi / 2 + 1e-12) and np.all(np.isfinite(f("init_lon")))):
        out.append(("cross_stage_spot", "lat in [-pi/2, pi/2]", "violated"))
    if spec["optical"] and "numPEs" in t.colnames:
        inr = (f("altDec") >= 0) & (f("altDec") <= 20)
        if not np.all(f("numPEs")[~inr] == 0):
            out.append(("cross_stage_range_cut", "0 PEs outside 0-20 km", "violated"))
    return out


def explore_schedules(spec, seed, base_digest, cap, tier="quick"):
    """every completion order of the shower stage under controlled threads / processes"""
    res = []
    for sch, w in ((("threads", 2), ("processes", 2)) if tier == "quick" else (("threads", 2), ("threads", 3), ("processes", 2), ("processes", 3))):
        def run(ch, _s=sch, _w=w):
            try:
                t = run_once(spec, seed, _s, _w, ch)
            except schedule.ReplayDivergence:
                raise
            except BaseException as ex:
                return f"raised {type(ex).__name__}: {str(ex)[:80]}"
            return sim.table_digest(t)

        n, obs, capped = schedule.explore_all(run, max_execs=cap)
        outcomes = {}
        bad = []
        for choices, o in obs:
            outcomes[o] = outcomes.get(o, 0) + 1
            if o != base_digest:
                bad.append((choices, o))
        res.append(dict(sch=sch, w=w, n=n, outcomes=len(outcomes), bad=bad[:2], capped=capped))
    return res


def job(a):
    spec, seed, tier = a
    out = []
    info = {"execs": 0, "sched": []}
    try:
        t = run_once(spec, seed)
    except BaseException as ex:
        return [("run_completes", "a table", f"{type(ex).__name__}: {str(ex)[:120]}", None)], info
    from astropy.table import Table

    if not isinstance(t, Table):
        return [("returns_a_valid_table", "an astropy Table (empty when no trajectory survives)", repr(type(t)), None)], info
    info["rows"] = len(t)
    m0 = meta_of(t)
    info["passing"] = (int(m0.get("ONEVPASS", 0)) > 0, int(m0.get("RNEVPASS", 0)) > 0)
    base = sim.table_digest(t)
    info["execs"] += 1
    for c, e, o in structural(spec, seed, t):
        out.append((c, e, o, None))
    # repeat: same seed, same scheduler
    if sim.table_digest(run_once(spec, seed)) != base:
        out.append(("reproducible_same_scheduler", base, "differs", None))
    info["execs"] += 1
    # the same run asked to report its progress (verbose=True): the same table, also when no trajectory survives
    try:
        tv = run_once(spec, seed, verbose=True)
        if not isinstance(tv, Table) or sim.table_digest(tv) != base:
            out.append(("verbose_run_returns_the_same_table", base, "differs", None))
    except BaseException as ex:
        out.append(("verbose_run_returns_the_same_table", f"a table of {len(t)} rows", f"{type(ex).__name__}: {str(ex)[:100]}", None))
    info["execs"] += 1
    # the table writes to FITS (also when empty)
    tmp = tempfile.mkdtemp(prefix="nssmc_c14_")
    try:
        with warnings.catch_warnings():
            warnings.simplefilter("ignore")
            try:
                t.write(os.path.join(tmp, "t.fits"), format="fits", overwrite=True)
            except Exception as ex:
                out.append(("table_writes_to_fits", "written", f"{type(ex).__name__}: {str(ex)[:100]}", None))
    finally:
        shutil.rmtree(tmp, ignore_errors=True)
    if spec["optical"] and len(t) > 0 and spec.get("schedules", True):
        for r in explore_schedules(spec, seed, base, 60 if tier == "quick" else 150, tier):
            info["execs"] += r["n"]
            info["sched"].append((r["sch"], r["w"], r["n"], r["outcomes"], r["capped"]))
            for choices, o in r["bad"]:
                out.append(("identical_under_every_schedule", base, o, {"sch": r["sch"], "w": r["w"], "choices": choices}))
        for sch in ("threads", "processes"):
            try:
                o = sim.table_digest(run_once(spec, seed, sch, 3, real=True))
            except BaseException as ex:
                o = f"raised {type(ex).__name__}: {str(ex)[:80]}"
            info["execs"] += 1
            if o != base:
                out.append(("identical_under_every_schedule", base, o, {"sch": sch, "w": 3, "real": True}))
    # channel isolation
    if spec["optical"] and spec["radio"] and len(t) > 0:
        for off, cols, keys in (("radio", OPT_COLS, OPT_KEYS), ("optical", RAD_COLS, RAD_KEYS)):
            s2 = dict(spec)
            s2[off] = False
            t2 = run_once(s2, seed)
            info["execs"] += 1
            d1, d2 = col_digest(t, cols + STAGE_COLS), col_digest(t2, cols + STAGE_COLS)
            for c in d2:
                if d1.get(c) != d2[c]:
                    out.append(("channel_isolation_columns", f"{c} unchanged when {off} is switched off", "differs", {"off": off}))
            m1, m2 = meta_of(t), meta_of(t2)
            for k in keys:
                if k in m1 and k in m2 and not (m1[k] == m2[k] or (m1[k] != m1[k] and m2[k] != m2[k])):
                    out.append(("channel_isolation_header", f"{k}={m1[k]!r} unchanged when {off} is switched off", repr(m2[k]), {"off": off}))
                if k not in m2:
                    out.append(("channel_isolation_header", f"{k} present when {off} is switched off", "missing", {"off": off}))
    return out, info


def specs(tier):
    out = []
    alts = [525.0] if tier == "quick" else [33.0, 525.0]
    for mode, sp, cl, (o, r), alt in itertools.product(("Diffuse", "Target"), ("mono", "power"), ("none", "mono", "map"), ((True, True), (True, False), (False, True)), alts):
        sched = o and r  # single-channel runs share the shower stage with 'both'
        # enough in-range showers for two partitions of the shower stage where schedules are explored (three partitions
        # for the pressure-map configurations in thorough)
        if mode == "Diffuse":
            n = 260 if (tier == "thorough" and cl == "map" and sched) else 150
        else:
            n = 2600 if sched and o else 150
        out.append(dict(mode=mode, spectrum=sp, cloud=cl, optical=o, radio=r, alt=alt, n=n, schedules=sched))
    # a configuration in which radio events trigger (channel isolation of the radio integral needs passing events)
    out.append(dict(mode="Diffuse", spectrum="mono", cloud="map", optical=True, radio=True, alt=33.0, n=150, logE=11.0, schedules=True, extra={"detector": {"radio": {"snr_threshold": 1.0}}}))
    out.append(dict(mode="Target", spectrum="mono", cloud="none", optical=True, radio=True, alt=33.0, n=150, logE=11.0, schedules=False, extra={"detector": {"radio": {"snr_threshold": 1.0}}}))
    # exactly one / two surviving trajectories (sample statistics of a single event are undefined)
    out.append(dict(mode="Diffuse", spectrum="mono", cloud="none", optical=True, radio=True, alt=525.0, n=1, schedules=False))
    out.append(dict(mode="Diffuse", spectrum="power", cloud="mono", optical=True, radio=True, alt=525.0, n=2, schedules=False))
    out.append(dict(mode="Diffuse", spectrum="mono", cloud="none", optical=False, radio=True, alt=525.0, n=1, schedules=False))
    # zero survivors
    out.append(dict(mode="Diffuse", spectrum="mono", cloud="none", optical=True, radio=True, alt=525.0, n=0, schedules=False))
    out.append(dict(mode="Diffuse", spectrum="power", cloud="map", optical=True, radio=False, alt=525.0, n=0, schedules=False))
    out.append(dict(mode="Target", spectrum="mono", cloud="none", optical=True, radio=True, alt=525.0, n=40, schedules=False, extra={"detector": {"initial_position": {"latitude": math.radians(45.0)}}, "simulation": {"target": {"source_DEC": math.radians(89.5)}}}))
    return out


def run(ctx):
    tier = ctx.tier
    S = 1 if tier == "quick" else 2
    seeds = [ctx.seed + i for i in range(S)]
    sp = specs(tier)
    jobs = [(s, seed, tier) for s in sp for seed in seeds]
    res = par.pmap(job, jobs)
    tot = 0
    zero = 0
    for (s, seed, _), (v, info) in zip(jobs, res):
        tot += info["execs"]
        if info.get("rows") == 0:
            zero += 1
        ctx.tick(info["execs"], (s["mode"], s["spectrum"], s["cloud"], s["optical"], s["radio"], s["alt"], info.get("rows", 0) > 0, info.get("passing"), tuple((a, b, o) for a, b, n, o, c in info["sched"])))
        for sch, w, n, o, capped in info["sched"]:
            if capped:
                ctx.cap(f"{s['mode']}/{s['spectrum']}/{s['cloud']} {sch} w={w}: stopped after {n} schedules")
        for c, e, o, extra in v:
            ctx.violation(c, {"spec": s, "seed": seed, "extra": extra, "tier": tier}, e, o)
    # a run with any of the diagnostic plots requested is the same run
    from .. import pipeline

    pv, pn = pipeline.judge_plots(["dashboard", "eas_optical_density", "eas_optical_histogram", "geom_beta_tr_hist", "spectra_histogram", "taus_density_beta", "taus_histogram", "taus_overview", "taus_pexit"], ("C",))
    ctx.tick(pn, ("plots", pn > 0))
    for c, e, o, k, nm in pv:
        ctx.violation(c, {"kind": "pipeline", "spec": k, "plot": nm}, e, o)
    ctx.cov["runs_with_a_plot_requested"] = pn
    # process-level histories: every sequence of preludes (other entry points / configurations / schedulers / user
    # settings) up to the depth of the tier, each in an interpreter of its own, followed by one fixed probe
    from .. import prochist

    hs, pres = prochist.explore(1 if tier == "quick" else 2)
    pbase = pres[0]
    if "error" in pbase:
        ctx.violation("process_history_probe_completes", {"kind": "prochist", "seq": []}, "the probe runs in a fresh process", pbase["error"][-160:])
    else:
        for h, r in zip(hs, pres):
            ctx.tick(2, ("prochist",) + tuple(h))
            for c, e, o in prochist.diff(pbase, r):
                ctx.violation(c, {"kind": "prochist", "seq": list(h)}, e, o)
    tot += len(hs)
    ctx.cov["process_histories"] = len(hs)
    ctx.cov["process_history_preludes"] = sorted(prochist.PRELUDES)
    ctx.states = tot
    ctx.transitions = tot
    ctx.traces = tot
    ctx.cov["configurations"] = len(sp)
    ctx.cov["seeds"] = seeds
    ctx.cov["complete_runs_of_compute"] = tot
    ctx.cov["zero_survivor_runs"] = zero
    ctx.cov["runs_with_passing_radio_events"] = sum(1 for _, (v, i) in zip(jobs, res) if i.get("passing", (0, 0))[1])
    ctx.cov["runs_with_passing_optical_events"] = sum(1 for _, (v, i) in zip(jobs, res) if i.get("passing", (0, 0))[0])
    ex = [i for (s, seed, _), (v, i) in zip(jobs, res) if i["sched"]]
    if ex:
        ctx.cov["schedules_example"] = ex[0]["sched"]
    ctx.sample({"spec": sp[0], "seed": seeds[0]})
    ctx.sample({"spec": sp[-1], "seed": seeds[0], "note": "target that never sets: zero survivors"})


def replay(case):
    if case.get("kind") == "pipeline":
        from .. import pipeline

        return pipeline.replay(case)
    if case.get("kind") == "prochist":
        from .. import prochist

        base = prochist.run_history(())
        if "error" in base:
            return [("process_history_probe_completes", "the probe runs in a fresh process", base["error"][-160:])]
        return prochist.diff(base, prochist.run_history(tuple(case["seq"])))
    v, _ = job((case["spec"], case["seed"], case.get("tier", "quick")))
    return [(c, e, o) for c, e, o, extra in v]
