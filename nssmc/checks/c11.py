"""C11 — every per-event stage is a pure, order-independent function of its inputs (E2: contexts x histories)."""

import itertools
import math
import warnings

import numpy as np

from .. import history, own, sim

PID = "C11"
LEVEL = "model_checking"
RULE = (
    "context-independence formulation: for each vectorised stage (diffuse geometry throw/__call__/spot, target geometry, "
    "spectrum, tau energy / exit probability / Taus.__call__, decay altitude, optical wrapper with the real kernel, radio "
    "field, SNR) a batch of k distinct events populating every mask class of that stage is fixed, every event carries its "
    "own random numbers, and the bytes of each event's outputs must be the same in EVERY context: alone on a fresh "
    "object, in all k! permutations, in all split points (fresh objects and sequentially on one object), with "
    "duplicates, and along all call sequences to depth d on one object (explicit-state BFS, state = hash of the object); "
    "buffered samplers additionally at batch sizes {1,2,8191,8192,8193,16385} split at {1,8191,8192,8193}; every input "
    "array is compared before/after and the call is repeated with read-only arrays. Further: after calls the stage must REFUSE (one energy outside the table at every "
    "position of the stage's own batch; a cloud lookup that fails at the first / middle / last event; a spectrum on a band of "
    "zero width) the valid batch in three orders equals fresh objects; every multi-call context is repeated with every "
    "returned array overwritten by the caller between calls; an object built after every table of a used object was "
    "overwritten equals a fresh one. Distinct by (stage, context kind, "
    "mask-class signature)."
)
ASSUMPTIONS = [
    "random numbers are attached to events: explicit u where the API takes it, otherwise numpy's legacy global draws are owned and fed in the stage's documented draw order",
    "state hash covers every array/scalar reachable from the stage object",
]


def _b(*vals):
    return b"|".join(np.ascontiguousarray(np.asarray(v)).tobytes() for v in vals)


class Stage:
    name = "?"
    k = 0

    def make(self):
        raise NotImplementedError

    def rows(self, obj, idxs, readonly=False):
        """returns (list of per-position output bytes, inputs_unmodified: bool)"""
        raise NotImplementedError

    def sig(self, i):
        return 0

    def bads(self):
        """the calls this stage must refuse: [(label, callable(obj))]"""
        return [("bad", self.bad)] if hasattr(self, "bad") else []

    # what earlier calls returned stays what it was: every rows() hands the arrays a call returned to hold(); intact()
    # says whether all arrays held since the last reset still have the bytes they were returned with
    def hold(self, *arrays):
        h = self.__dict__.setdefault("_held", [])
        for a in arrays:
            if isinstance(a, np.ndarray):
                h.append((a, a.tobytes()))

    def reset_held(self):
        self.__dict__["_held"] = []

    def intact(self):
        return all(a.tobytes() == d for a, d in self.__dict__.get("_held", []))


def _arr(vals, readonly):
    """readonly: False (plain), True (read-only), "strided" (a non-contiguous view into a larger array)"""
    a = np.array(vals, dtype=np.float64)
    if readonly == "strided":
        big = np.full((2 * len(a) + 1,) + a.shape[1:], -7.25)
        big[1::2] = a
        return big[1::2]
    if readonly:
        a.flags.writeable = False
    return a


def _same(arrs, copies):
    return all(a.tobytes() == c for a, c in zip(arrs, copies))


# ------------------------------------------------------------------------------------------------ stages

class DiffuseGeom(Stage):
    name = "RegionGeom.throw"

    def __init__(self, variant=0):
        from .c02 import geom_cfg, make_geom

        self.gc = geom_cfg(525.0, 0.2, 0.3, 7.0, 30.0, 360.0) if variant == 0 else geom_cfg(33.0, -0.7, 2.9, 2.0, 60.0, 90.0)
        self._make = make_geom
        # kept / not kept (downward, beta > 42) / face points
        self.ev = [(0.3, 0.5, 0.2, 0.6), (0.9, 0.02, 0.7, 0.05), (0.05, 0.9, 0.4, 0.95), (0.99, 0.5, 0.9, 0.3), (0.5, 0.25, 0.0, 1.0), (0.0, 0.0, 1.0, 0.0)]
        self.k = len(self.ev)

    def make(self):
        return self._make(self.gc)

    def rows(self, g, idxs, readonly=False):
        U = np.array([self.ev[i] for i in idxs], dtype=np.float64).reshape(-1, 4).T.copy()
        if readonly == "strided":
            big = np.full((4, 2 * U.shape[1] + 1), 0.5)
            big[:, 1::2] = U
            U = big[:, 1::2]
        elif readonly:
            U.flags.writeable = False
        c = U.tobytes()
        with np.errstate(all="ignore"):
            g.throw(U)
            names = ["thetaTrSubV", "costhetaTrSubV", "phiTrSubV", "phiS", "losPathLen", "thetaS", "costhetaNSubV", "costhetaTrSubN", "thetaTrSubN", "betaTrSubN", "latS", "longS", "elevAngVSubN", "aziAngVSubN", "event_mask"]
            cols = [np.asarray(getattr(g, n)) for n in names]
            mask = np.asarray(g.event_mask)
            out = [_b(*[col[j] for col in cols]) for j in range(len(idxs))]
            # masked accessors and the spot along the trajectory, mapped back to events
            kept = np.where(mask)[0]
            acc = [np.asarray(x) for x in (g.beta_rad(), g.thetas(), g.pathLens(), g.valid_latS_rad(), g.valid_longS_rad())]
            la, lo = g.find_lat_long_along_traj(np.zeros(len(kept)))
            self.hold(*acc, la, lo)
            for pos, j in enumerate(kept):
                out[j] += _b(*[a[pos] for a in acc], np.asarray(la)[pos], np.asarray(lo)[pos])
        return out, U.tobytes() == c

    def sig(self, i):
        return i

    def bad(self, g):
        g.throw(np.zeros((3, 5)))  # wrong shape: must be rejected


class DiffuseGeomCall(DiffuseGeom):
    name = "RegionGeom.__call__(u)"

    def rows(self, g, idxs, readonly=False):
        U = np.array([self.ev[i] for i in idxs], dtype=np.float64).reshape(-1, 4).T.copy()
        if readonly == "strided":
            big = np.full((4, 2 * U.shape[1] + 1), 0.5)
            big[:, 1::2] = U
            U = big[:, 1::2]
        elif readonly:
            U.flags.writeable = False
        c = U.tobytes()
        with np.errstate(all="ignore"):
            b, t, L = g(U)
            mask = np.asarray(g.event_mask)
        self.hold(b, t, L)
        out = [b"dropped"] * len(idxs)
        for pos, j in enumerate(np.where(mask)[0]):
            out[j] = _b(np.asarray(b)[pos], np.asarray(t)[pos], np.asarray(L)[pos])
        return out, U.tobytes() == c


class TargetGeom(Stage):
    name = "RegionGeomToO.throw(times)"

    def __init__(self, variant=0):
        self.cfg = sim.make_config(mode="Target", n=10) if variant == 0 else sim.make_config(mode="Target", n=10, altitude=33.0, det_lat=0.4, det_long=1.0, extra={"simulation": {"target": {"source_RA": 4.0, "source_DEC": 0.5}}})
        # fractions of the observation window; the default source is occulted for a few of them
        from nuspacesim.simulation.geometry.region_geometry import RegionGeomToO

        with warnings.catch_warnings():
            warnings.simplefilter("ignore")
            g = RegionGeomToO(self.cfg)
            fr = np.arange(150) / 150.0
            g.throw(fr.copy())
            hm = np.asarray(g.horizon_mask)
            kept = np.zeros(150, dtype=bool)
            kept[np.where(hm)[0][np.asarray(g.volume_mask)]] = True
        ki = list(np.where(kept)[0][:2])
        hi = list(np.where(hm & ~kept)[0][:2])
        oi = list(np.where(~hm)[0][:2])
        self.ev = [float(fr[i]) for i in ki + hi + oi]
        self.cls = ["kept"] * len(ki) + ["volume_cut"] * len(hi) + ["above_horizon"] * len(oi)
        self.k = len(self.ev)

    def make(self):
        from nuspacesim.simulation.geometry.region_geometry import RegionGeomToO

        with warnings.catch_warnings():
            warnings.simplefilter("ignore")
            return RegionGeomToO(self.cfg)

    def rows(self, g, idxs, readonly=False):
        t = _arr([self.ev[i] for i in idxs], readonly)
        c = t.tobytes()
        with warnings.catch_warnings():
            warnings.simplefilter("ignore")
            b, th, L, vt = g(t)
            self.hold(b, th, L)
            hm = np.asarray(g.horizon_mask)
            nad = np.asarray(g.sourceNadRad)
            tm = g.times
            out = [_b(nad[j], hm[j], np.asarray(tm.jd1)[j], np.asarray(tm.jd2)[j]) for j in range(len(idxs))]
            keptpos = np.where(hm)[0][np.asarray(g.volume_mask)]
            for pos, j in enumerate(keptpos):
                out[j] += _b(np.asarray(b)[pos], np.asarray(th)[pos], np.asarray(L)[pos], np.asarray(vt.jd1)[pos], np.asarray(vt.jd2)[pos])
        return out, t.tobytes() == c

    def sig(self, i):
        return self.cls[i]

    def bad(self, g):
        g.throw(None)


class SpectrumStage(Stage):
    name = "Spectra.__call__"

    def __init__(self, variant=0):
        from nuspacesim.simulation.spectra.spectra import Spectra

        self.cfg = sim.make_config(spectrum="power") if variant == 0 else sim.make_config(spectrum="mono", logE=9.3)
        self.S = Spectra
        self.ev = [0.0, 5e-324, 0.25, 0.5, 1 - 2.0**-53, 0.9]
        self.k = len(self.ev)

    def make(self):
        return self.S(self.cfg)

    def rows(self, s, idxs, readonly=False):
        t = np.array([self.ev[i] for i in idxs])
        with own.RngStub(feeds=[t]).installed():
            logE, a, b = s(len(idxs))
        self.hold(logE)
        return [_b(np.asarray(logE)[j], a, b) for j in range(len(idxs))], True

    def sig(self, i):
        return i

    def bads(self):
        """a spectrum the sampler must refuse (a power law on a band of zero width), configured on the live
        configuration object and taken back afterwards: the calls that follow see the original spectrum again"""
        sp = self.cfg.simulation.spectrum
        if not hasattr(sp, "lower_bound"):
            return []

        def f(s):
            lo, hi = sp.lower_bound, sp.upper_bound
            try:
                sp.upper_bound = lo
                with own.RngStub(feeds=[np.array(self.ev)]).installed():
                    s(self.k)
            finally:
                sp.lower_bound, sp.upper_bound = lo, hi

        return [("power law on a band of zero width", f)]


class MonoSpectrumStage(SpectrumStage):
    name = "Spectra.__call__ (mono-energetic)"

    def __init__(self, variant=0):
        super().__init__(1)


class TausStage(Stage):
    def __init__(self, which, version="3", variant=0):
        if variant == 1:
            version = "1" if version != "1" else "3"
        from nuspacesim.config import NssConfig, Simulation
        from nuspacesim.simulation.taus.taus import Taus

        self.which = which
        self.name = f"Taus.{which}"
        self.cfg = NssConfig(simulation=Simulation(tau_shower=Simulation.NuPyPropShower(table_version=version)))
        self.T = Taus
        t = Taus(self.cfg)
        bax = t.tau_cdf_grid["beta_rad"]
        lax = t.tau_cdf_grid["log_e_nu"]
        self.bax = bax
        # (beta, logE, u): below / inside (node, mid) / above the table angles
        self.ev = [
            (0.0, float(lax[3]), 0.37),
            (float(bax[0]) / 2, 9.1, 0.11),
            (float(bax[7]), float(lax[10]), 0.83),
            (0.5 * float(bax[20] + bax[21]), 7.77, 0.59),
            (float(bax[-1]), 12.0, 0.5),
            (math.radians(60.0), 8.0, 0.2),
        ]
        self.k = len(self.ev)

    def make(self):
        return self.T(self.cfg)

    def rows(self, t, idxs, readonly=False):
        b = _arr([self.ev[i][0] for i in idxs], readonly)
        le = _arr([self.ev[i][1] for i in idxs], readonly)
        u = _arr([self.ev[i][2] for i in idxs], readonly)
        cp = [b.tobytes(), le.tobytes(), u.tobytes()]
        if self.which == "tau_energy":
            r = (t.tau_energy(b, le, u),)
        elif self.which == "tau_exit_prob":
            r = (t.tau_exit_prob(b, le),)
        else:
            # internal generator: draws are made for the in-table events first, then for the below-minimum ones
            bb = np.asarray(b)
            valid = (bb >= self.bax[0]) & (bb <= self.bax[-1])
            low = bb < self.bax[0]
            stream = np.concatenate([np.asarray(u)[valid], np.asarray(u)[low]])
            pos = [0]

            def fn(idx, n):
                s = stream[pos[0] : pos[0] + n]
                pos[0] += n
                return s if len(s) == n else np.resize(np.append(s, 0.5), n)

            with own.RngStub(fn=fn).installed(), np.errstate(all="ignore"):
                r = t(b, le)
        self.hold(*r)
        return [_b(*[np.asarray(x)[j] for x in r]) for j in range(len(idxs))], _same([b, le, u], cp)

    def sig(self, i):
        b = self.ev[i][0]
        return 0 if b < self.bax[0] else (2 if b > self.bax[-1] else 1)

    def bad(self, t):
        # an energy outside the table: must be rejected (and must leave the object usable)
        if self.which == "tau_energy":
            t.tau_energy(np.array([0.1, 0.2]), np.array([8.0, 12.5]), np.array([0.3, 0.6]))
        elif self.which == "tau_exit_prob":
            t.tau_exit_prob(np.array([0.1, 0.2]), np.array([8.0, 12.5]))
        else:
            with own.RngStub(fn=lambda i, n: np.full(n, 0.4)).installed():
                t(np.array([0.1, 0.2]), np.array([5.0, 8.0]))


def _taus_bads(self):
    """the stage's own full batch (same shape, same angles) with ONE event's energy outside the table, at every position
    in turn: the call is refused after the events of the other angle classes may already have been evaluated"""
    out = [("bad", self.bad)]
    for p in range(self.k):
        def f(t, p=p):
            b = np.array([e[0] for e in self.ev]); le = np.array([e[1] for e in self.ev]); u = np.array([e[2] for e in self.ev])
            le[p] = 12.5
            if self.which == "tau_energy":
                t.tau_energy(b, le, u)
            elif self.which == "tau_exit_prob":
                t.tau_exit_prob(b, le)
            else:
                with own.RngStub(fn=lambda i, n: np.full(n, 0.4)).installed():
                    t(b, le)
        out.append((f"energy outside the table at position {p}", f))
    return out


TausStage.bads = _taus_bads


class AltDecStage(Stage):
    name = "EAS.altDec"

    def __init__(self):
        from nuspacesim.simulation.eas_optical.eas import EAS

        self.E = EAS
        self.cfg = sim.make_config()
        self.ev = [(0.01, 0.9999, 2000.0, 0.3), (0.5, 0.999999, 1e6, 1e-300), (0.0, 0.99, 100.0, 1.0), (0.7, 1.0, 1e9, 0.5), (0.3, 0.5, 3.0, 5e-324)]
        # the closed ends of the generator's interval as signed zeros (a draw of exactly 0 is possible: [0, 1))
        self.ev += [(0.2, 0.9, 50.0, 0.0), (0.2, 0.9, 50.0, -0.0)]
        self.k = len(self.ev)

    def make(self):
        return self.E(self.cfg)

    def rows(self, e, idxs, readonly=False):
        cols = [_arr([self.ev[i][c] for i in idxs], readonly) for c in range(4)]
        cp = [c.tobytes() for c in cols]
        with np.errstate(all="ignore"):
            a, l = e.altDec(*cols)
        self.hold(a, l)
        return [_b(np.asarray(a)[j], np.asarray(l)[j]) for j in range(len(idxs))], _same(cols, cp)

    def sig(self, i):
        return i


class EASStage(Stage):
    name = "EAS.__call__ (real kernel)"

    def __init__(self, variant=0):
        from nuspacesim.simulation.eas_optical.eas import EAS

        self.E = EAS
        self.cfg = sim.make_config(cloud="map") if variant == 0 else sim.make_config(altitude=33.0, extra={"simulation": {"cloud_model": {"id": "pressure_map", "month": 1}}, "detector": {"optical": {"quantum_efficiency": 0.4, "photo_electron_threshold": 3.0}}})
        from nuspacesim.simulation.atmosphere.clouds import CloudTopHeight

        self.cloud = CloudTopHeight(self.cfg)
        # in range with PE > 2 thr / PE < 2 thr, out of range above / below
        self.ev = [(math.radians(5.0), 2.0, 10.0, 0.1, 0.2), (math.radians(30.0), 15.0, 1e-4, -0.9, 2.5), (math.radians(10.0), 25.0, 1.0, 0.5, -1.0), (math.radians(1.0), -0.5, 1.0, 1.2, 0.7), (math.radians(20.0), 8.0, 300.0, -0.3, -2.8)]
        # two events on ONE track (same number of steps, same intermediate array shapes), ascending energy: anything an
        # event leaves behind in a per-shape scratch array reaches the next one
        self.ev += [(math.radians(20.0), 2.0, 1.0, 0.45, 0.3), (math.radians(20.0), 2.0, 10.0, 0.45, 0.3)]  # (a site with no cloud above the track in either month)
        # two events on DIFFERENT tracks with the same number of valid steps (1350) but different numbers of steps below
        # 30 km (618 and 534): a per-shape block that one shower fills and the next only partly overwrites shows here
        self.ev += [(0.48531630344983234, 0.7708277896769911, 1.0, 0.45, 0.3), (0.42770094774341766, 7.260866363896275, 1.0, 0.45, 0.3)]
        self.k = len(self.ev)

    def make(self):
        return self.E(self.cfg)

    def rows(self, e, idxs, readonly=False):
        import dask

        cols = [_arr([self.ev[i][c] for i in idxs], readonly) for c in range(5)]
        cp = [c.tobytes() for c in cols]
        with own.null_progress(), dask.config.set(scheduler="synchronous"), np.errstate(all="ignore"):
            pe, ce = e(*cols, cloudf=self.cloud)
        self.hold(pe, ce)
        return [_b(np.asarray(pe)[j], np.asarray(ce)[j]) for j in range(len(idxs))], _same(cols, cp)

    def sig(self, i):
        a = self.ev[i][1]
        return (0 <= a <= 20, i)

    def bad(self, e):
        import dask

        with own.null_progress(), dask.config.set(scheduler="synchronous"), np.errstate(all="ignore"):
            e(np.array([0.1, 0.2]), np.array([5.0]), np.array([1.0, 1.0]), np.zeros(2), np.zeros(2), cloudf=self.cloud)  # length mismatch

    def bads(self):
        """... and the stage's own full batch under an overcast sky whose lookup FAILS at one event's site (first, middle,
        last): the batch call raises part-way, after other events were evaluated under that sky"""
        import dask

        out = [("bad", self.bad)]
        for p in (0, self.k // 2, self.k - 1):
            def f(e, p=p):
                lat = self.ev[p][3]

                def failing(la, lo):
                    if float(la) == lat:
                        raise ValueError("injected cloud-lookup failure")
                    return np.float64(100.0)

                cols = [np.array([ev[c] for ev in self.ev]) for c in range(5)]
                with own.null_progress(), dask.config.set(scheduler="synchronous"), np.errstate(all="ignore"):
                    e(*cols, cloudf=failing)
            out.append((f"cloud lookup fails at event {p}", f))
        return out


class EASClearStage(EASStage):
    """the same stage called with NO cloud callback: a sky an earlier, failed batch was given must not linger"""

    name = "EAS.__call__ (real kernel, no cloud callback)"

    def __init__(self, variant=0):
        super().__init__(variant)
        self.cloud = None


class RadioStage(Stage):
    name = "EASRadio.__call__"
    accepts_empty = False  # (the unchanged tree raises IndexError on an empty batch; the pipeline never passes one)

    def __init__(self, variant=0):
        from nuspacesim.simulation.eas_radio.radio import EASRadio

        from .c20 import alt_of, len_for_alt

        self.Rd = EASRadio
        self.band = (30.0, 300.0) if variant == 0 else (300.0, 1000.0)
        self.cfg = sim.make_config(altitude=525.0) if variant == 0 else sim.make_config(altitude=33.0, extra={"detector": {"radio": {"low_frequency": 300.0, "high_frequency": 1000.0, "nantennas": 4}}})
        b = math.radians(5.0)
        ls = [0.0, len_for_alt(5.0, b), len_for_alt(10.0, b), len_for_alt(15.0, b), 3.0, len_for_alt(9.4, math.radians(1.0))]
        bs = [b, b, b, b, math.radians(40.0), math.radians(1.0)]
        self.ev = [(bb, l, alt_of(l, bb) if l > 0 else 0.0, math.radians(1.0), 1500.0, 10.0 ** (i - 2), 0.13 + 0.17 * i) for i, (bb, l) in enumerate(zip(bs, ls))]
        self.k = len(self.ev)

    def make(self):
        return self.Rd(self.cfg)

    def rows(self, r, idxs, readonly=False):
        cols = [_arr([self.ev[i][c] for i in idxs], readonly) for c in range(6)]
        beta, lenDec, altDec, theta, L, E = cols
        cp = [c.tobytes() for c in cols]
        tk = np.array([self.ev[i][6] for i in idxs])
        inr = (np.asarray(altDec) >= 0) & (np.asarray(altDec) <= 10)
        nin = int(inr.sum())

        def fn(idx, n):
            if n == nin:
                return (tk[inr] * (idx + 1) * 0.37) % 1.0
            if nin and n % nin == 0:
                nb = n // nin
                return ((tk[inr][:, None] * 0.61 + np.arange(nb)[None, :] * 0.013) % 1.0).ravel()
            return np.full(n, 0.5)

        with own.RngStub(fn=fn).installed(), own.quiet(), np.errstate(all="ignore"):
            ef = np.asarray(r(beta, altDec, lenDec, theta, L, E))
        self.hold(ef)
        from nuspacesim.simulation.eas_radio.radio_antenna import calculate_snr

        ef_c = ef.copy()
        with np.errstate(all="ignore"):
            snr = np.asarray(calculate_snr(ef, self.band, 525.0, 10, 1.8))
        ok = _same(cols, cp) and ef.tobytes() == ef_c.tobytes()
        return [_b(ef[j], snr[j]) for j in range(len(idxs))], ok

    def sig(self, i):
        a = self.ev[i][2]
        return (0 <= a <= 10, self.ev[i][1] == 0)


def stages(tier):
    out = [DiffuseGeom(), DiffuseGeomCall(), TargetGeom(), SpectrumStage(), MonoSpectrumStage(), TausStage("tau_energy"), TausStage("tau_exit_prob"), TausStage("__call__"), TausStage("tau_exit_prob", "1"), AltDecStage(), EASStage(), EASClearStage(), RadioStage()]
    return out


VARIANT_SPECS = [
    ("DiffuseGeom", []),
    ("TargetGeom", []),
    ("SpectrumStage", []),
    ("TausStage", ["tau_energy", "3"]),
    ("TausStage", ["tau_exit_prob", "3"]),
    ("TausStage", ["__call__", "1"]),
    ("EASStage", []),
    ("RadioStage", []),
]


def _mk(cls, args, variant):
    return globals()[cls](*args, variant=variant)


def variant_pairs():
    """(stage configured one way, the same stage configured another way): two live instances in one process"""
    return [(_mk(c, a, 0), _mk(c, a, 1)) for c, a in VARIANT_SPECS]


def _base_dump(cls, args, variant):
    """run in a FRESH interpreter: per-event reference bytes of one stage variant, nothing else ever constructed"""
    import json
    import sys

    st = _mk(cls, args, variant)
    full = list(range(st.k))
    r, ok = st.rows(st.make(), full)
    sys.stdout.write("BASE:" + json.dumps([x.hex() for x in r]) + "\n")


def fresh_bases():
    """reference rows of every (stage, variant) computed in a process of its own (a class- or module-level cache filled
    by another configuration cannot pollute them)"""
    import concurrent.futures as cf
    import json
    import os
    import subprocess
    import sys

    jobs = [(c, a, v) for c, a in VARIANT_SPECS for v in (0, 1)]

    def one(j):
        c, a, v = j
        code = f"import sys; sys.path.insert(0, {str(os.path.dirname(os.path.dirname(os.path.dirname(os.path.abspath(__file__)))))!r}); from nssmc.checks.c11 import _base_dump; _base_dump({c!r}, {a!r}, {v})"
        r = subprocess.run([sys.executable, "-c", code], capture_output=True, text=True, env=dict(os.environ))
        for line in r.stdout.splitlines():
            if line.startswith("BASE:"):
                return [bytes.fromhex(x) for x in json.loads(line[5:])]
        raise RuntimeError(f"fresh base for {j} failed: {r.stderr[-300:]}")

    with cf.ThreadPoolExecutor(8) as ex:
        res = list(ex.map(one, jobs))
    return {(c, tuple(a), v): r for (c, a, v), r in zip(jobs, res)}


def judge_after_error(st):
    """a call that the stage must reject, then ordinary calls on the SAME object: results as on a fresh object"""
    bads = st.bads()
    if not bads:
        return [], 0
    base = [st.rows(st.make(), [i])[0][0] for i in range(st.k)]
    out = []
    n = 0
    full = list(range(st.k))
    rot = full[1:] + full[:1]
    for label, bad in bads:
        # (the valid batches after the refused call have the refused batch's shape, in the same, the reversed and a
        # rotated order: whatever the refused call left in a per-shape work array or on the object meets other events)
        for seq in (["bad", full], [full, "bad", full], ["bad", "bad", full[::-1]], [full, "bad", full[::-1]], ["bad", rot]):
            obj = st.make()
            hit = False
            for step in seq:
                n += 1
                if step == "bad":
                    try:
                        bad(obj)
                    except Exception:
                        pass
                    continue
                try:
                    r, ok = st.rows(obj, step)
                except Exception as ex:
                    out.append(("usable_after_rejected_call", "after_error", [label] + [str(x) for x in seq], f"{type(ex).__name__}: {str(ex)[:80]}"))
                    hit = True
                    break
                if any(r[pos] != base[i] for pos, i in enumerate(step)):
                    out.append(("event_result_independent_of_context", "after_error", [label] + [str(x) for x in seq], "differs after a rejected call"))
                    hit = True
                    break
            if hit:
                break
    return out, n


def _scribble(obj, depth=0, seen=None):
    """overwrite in place every writeable numeric array reachable from the object's attributes (tables, grids, work
    arrays): returns how many arrays were overwritten"""
    seen = set() if seen is None else seen
    if id(obj) in seen or depth > 3:
        return 0
    seen.add(id(obj))
    n = 0
    if isinstance(obj, np.ndarray):
        if obj.flags.writeable and obj.dtype.kind in "fiu" and obj.size:
            try:
                obj[...] = 3 if obj.dtype.kind != "f" else -7.25
                n += 1
            except Exception:
                pass
        return n
    if isinstance(obj, (list, tuple)):
        for x in obj[:50]:
            n += _scribble(x, depth + 1, seen)
        return n
    if isinstance(obj, dict):
        for x in list(obj.values())[:50]:
            n += _scribble(x, depth + 1, seen)
        return n
    mod = type(obj).__module__ or ""
    if mod.startswith("nuspacesim") and not mod.startswith("nuspacesim.config"):
        for name in ("data", "axes"):
            try:
                if hasattr(obj, name):
                    n += _scribble(getattr(obj, name), depth + 1, seen)
            except Exception:
                pass
        for v in list(getattr(obj, "__dict__", {}).values()):
            n += _scribble(v, depth + 1, seen)
    return n


def judge_private_tables(st):
    """an object is used, then every table / grid / array it holds is overwritten in place (the caller experiments on ITS
    object); an object constructed AFTERWARDS reads the shipped data: its results are those of any fresh object"""
    full = list(range(st.k))
    try:
        base = [st.rows(st.make(), [i])[0][0] for i in full]
        a = st.make()
        st.rows(a, full)
        n = _scribble(a)
        b = st.make()
        r, ok = st.rows(b, full)
    except Exception as ex:
        return [("instances_do_not_share_tables", "private_tables", [st.name], f"{type(ex).__name__}: {str(ex)[:80]}")], 1
    if any(r[pos] != base[i] for pos, i in enumerate(full)):
        return [("instances_do_not_share_tables", "private_tables", [st.name], f"an object built after {n} arrays of an earlier object were overwritten differs from a fresh one")], 1
    return [], 1


def judge_two_instances(sa, sb, bases):
    """two instances of one stage class with DIFFERENT configurations alive in one process, calls interleaved;
    bases: reference rows of the two variants, each computed in a fresh process"""
    out = []
    n = 0
    for order in ([0, 1, 0], [1, 0, 1, 0], [0, 0, 1], [1, 1, 0]):
        objs = [None, None]
        built = []
        for which in order:
            st = (sa, sb)[which]
            if objs[which] is None:
                objs[which] = st.make()
                built.append(which)
            full = list(range(st.k))
            n += 1
            try:
                r, ok = st.rows(objs[which], full)
            except Exception as ex:
                out.append(("instances_with_different_configuration_are_independent", "two_instances", order, f"{type(ex).__name__}: {str(ex)[:80]}"))
                break
            if any(r[i] != bases[which][i] for i in full):
                out.append(("instances_with_different_configuration_are_independent", "two_instances", order, f"instance {which} differs from the same instance alone in a fresh process"))
                break
    return out, n


# ------------------------------------------------------------------------------------------------ generic contexts

def contexts(k, tier):
    """list of (kind, batches) where batches is a list of index lists executed sequentially on ONE object"""
    kk = min(k, 4 if tier == "quick" else 5)
    base = list(range(kk))
    out = []
    for p in itertools.permutations(base):
        out.append(("perm", [list(p)]))
    full = list(range(k))
    if k > kk:
        out.append(("perm", [full]))
        out.append(("perm", [full[::-1]]))
        out.append(("perm", [full[1:] + full[:1]]))
    for s in range(1, k):
        out.append(("split_fresh", [full[:s]]))
        out.append(("split_fresh", [full[s:]]))
        out.append(("split_same_object", [full[:s], full[s:]]))
        out.append(("split_same_object", [full[s:], full[:s]]))
    for i in range(k):
        out.append(("duplicate", [[i, i]]))
        out.append(("duplicate", [[i] + full]))
    # histories: all sequences of depth d over an alphabet of 3 batches
    alph = [full, full[::-1], full[: max(1, k // 2)]]
    d = 2 if tier == "quick" else 3
    for seq in itertools.product(range(3), repeat=d):
        out.append(("history", [alph[j] for j in seq]))
    out.append(("repeat", [full, full, full]))
    return out


def judge_stage(st, tier):
    """returns (violations [(clause, ctx_kind, batches, position)], n_contexts, states)"""
    out = []
    base = []
    for i in range(st.k):
        r, ok = st.rows(st.make(), [i])
        base.append(r[0])
        if not ok:
            out.append(("inputs_unmodified", "single", [[i]], 0))
    states = set()
    n = 0
    for kind, batches in contexts(st.k, tier):
        obj = st.make()
        st.reset_held()
        n += 1
        for bi, idxs in enumerate(batches):
            try:
                r, ok = st.rows(obj, idxs)
            except Exception as ex:
                out.append(("context_no_exception", kind, batches, f"{type(ex).__name__}: {str(ex)[:80]}"))
                break
            if not ok:
                out.append(("inputs_unmodified", kind, batches, bi))
            if not st.intact():
                out.append(("results_of_earlier_calls_left_intact", kind, batches, bi))
                st.reset_held()
            for pos, i in enumerate(idxs):
                if r[pos] != base[i]:
                    out.append(("event_result_independent_of_context", kind, batches, (bi, pos)))
                    break
            states.add(history.canon(obj))
        if kind == "repeat":
            o2 = st.make()
            st.rows(o2, batches[0])
            h1 = history.canon(o2)
            st.rows(o2, batches[0])
            h2 = history.canon(o2)
            st.rows(o2, batches[0])
            h3 = history.canon(o2)
            if not (h1 == h2 == h3):
                out.append(("repeat_leaves_state_unchanged", kind, batches, "object state hash changes between repeated identical calls"))
    # what a call returns is the caller's: after every call of a context EVERY returned array is overwritten in place
    # (the caller converts units, flags entries, re-uses the buffer), and the calls that follow must not notice - a result
    # that is a view of a table, of a work array, of a cached column or of a default shows in the next call
    for kind, batches in contexts(st.k, tier):
        if len(batches) < 2:
            continue  # (a single call has no successor to notice anything)
        obj = st.make()
        st.reset_held()
        n += 1
        for bi, idxs in enumerate(batches):
            try:
                r, ok = st.rows(obj, idxs)
            except Exception as ex:
                out.append(("results_belong_to_the_caller", kind, batches, f"{type(ex).__name__}: {str(ex)[:80]}"))
                break
            bad_pos = [pos for pos, i in enumerate(idxs) if r[pos] != base[i]]
            if bad_pos:
                out.append(("results_belong_to_the_caller", kind, batches, (bi, bad_pos[0])))
                break
            for a, _ in st.__dict__.get("_held", []):
                if a.flags.writeable:
                    try:
                        a[...] = -7.25
                    except Exception:
                        pass
            st.reset_held()
    # read-only inputs: no write may even be attempted; non-contiguous views: same results, the surrounding memory and
    # the view itself untouched
    for mode, clause in ((True, "inputs_never_written"), ("strided", "strided_inputs")):
        for idxs in ([0], list(range(st.k))):
            try:
                r, ok = st.rows(st.make(), idxs, readonly=mode)
                if not ok:
                    out.append(("inputs_unmodified", str(mode), [idxs], 0))
                for pos, i in enumerate(idxs):
                    if r[pos] != base[i]:
                        out.append(("event_result_independent_of_context", str(mode), [idxs], (0, pos)))
                        break
            except Exception as ex:
                out.append((clause, str(mode), [idxs], f"{type(ex).__name__}: {str(ex)[:80]}"))
            n += 1
    # the empty batch: no rows in, no rows out (stages that accept it on the unchanged tree)
    if getattr(st, "accepts_empty", True):
        try:
            r, ok = st.rows(st.make(), [])
            if len(r) != 0:
                out.append(("empty_batch_gives_empty_result", "empty", [[]], len(r)))
        except Exception as ex:
            out.append(("empty_batch_gives_empty_result", "empty", [[]], f"{type(ex).__name__}: {str(ex)[:80]}"))
        n += 1
    return out, n, len(states)


# ------------------------------------------------------------------------------------------------ buffered samplers

def judge_buffer(N, splits):
    """tau_energy / grid_cdf_sampler with explicit u at sizes around the 8192-element nditer buffer"""
    from nuspacesim.utils.cdf import grid_cdf_sampler

    st = TausStage("tau_energy")
    t = st.make()
    bax = st.bax
    i = np.arange(N)
    b = bax[0] + (bax[-1] - bax[0]) * ((i * 0.6180339887498949) % 1.0)
    b[::17] = 0.0  # below the table
    b[5::23] = math.radians(60.0)  # above
    le = 6.0 + 6.0 * ((i * 0.7548776662466927) % 1.0)
    u = 0.001 + 0.998 * ((i * 0.5698402909980532) % 1.0)
    out = []
    whole = np.asarray(t.tau_energy(b.copy(), le.copy(), u.copy()))
    inb = (b >= bax[0]) & (b <= bax[-1])
    zs = np.asarray(grid_cdf_sampler(t.tau_cdf_grid)(le[inb].copy(), b[inb].copy(), u[inb].copy()))
    for s in splits:
        if not (0 < s < N):
            continue
        a1 = np.asarray(st.make().tau_energy(b[:s].copy(), le[:s].copy(), u[:s].copy()))
        a2 = np.asarray(st.make().tau_energy(b[s:].copy(), le[s:].copy(), u[s:].copy()))
        if np.concatenate([a1, a2]).tobytes() != whole.tobytes():
            out.append(("split_at_buffer_boundary", N, s))
        m = int(inb[:s].sum())
        z1 = np.asarray(grid_cdf_sampler(t.tau_cdf_grid)(le[inb][:m].copy(), b[inb][:m].copy(), u[inb][:m].copy())) if m else np.array([])
        z2 = np.asarray(grid_cdf_sampler(t.tau_cdf_grid)(le[inb][m:].copy(), b[inb][m:].copy(), u[inb][m:].copy())) if m < inb.sum() else np.array([])
        if np.concatenate([z1, z2]).tobytes() != zs.tobytes():
            out.append(("sampler_split_at_buffer_boundary", N, s))
    # reversed order
    rev = np.asarray(st.make().tau_energy(b[::-1].copy(), le[::-1].copy(), u[::-1].copy()))
    if rev[::-1].tobytes() != whole.tobytes():
        out.append(("reversed_large_batch", N, 0))
    # singles for a sample of positions around the buffer boundary
    for j in sorted(x for x in set([0, 1, N // 2, N - 1, 8190, 8191, 8192, 8193, 16383, 16384]) if 0 <= x < N):
        one = np.asarray(st.make().tau_energy(b[j : j + 1].copy(), le[j : j + 1].copy(), u[j : j + 1].copy()))
        if one[0] != whole[j] and not (np.isnan(one[0]) and np.isnan(whole[j])):
            out.append(("single_vs_large_batch", N, j))
    return out


def _rev_job(a):
    """in a forked child that has not run any stage yet: every event alone on a fresh object, LAST event first"""
    tier, i = a
    st = stages(tier)[i]
    return [st.rows(st.make(), [j])[0][0] for j in reversed(range(st.k))][::-1]


def _fwd_job(a):
    tier, i = a
    st = stages(tier)[i]
    return [st.rows(st.make(), [j])[0][0] for j in range(st.k)]


def run(ctx):
    tier = ctx.tier
    tot_states = tot_ctx = 0
    # first, before this process has evaluated anything: each stage's events alone on fresh objects in REVERSE order, each
    # stage in a forked child of its own; compared below with the same events in index order in this process. A
    # module-level memo (an lru_cache of a work array, say) makes an event's result depend on which event the PROCESS saw
    # first - something no context on fresh objects inside one process can show, since they all share that first time
    from .. import par

    nst = 13
    rev = par.pmap_isolated(_rev_job, [(tier, i) for i in range(nst)])
    sts = stages(tier)
    assert len(sts) == nst, "update nst in c11.run"
    for i, st in enumerate(sts):
        fwd = [st.rows(st.make(), [j])[0][0] for j in range(st.k)]
        ctx.tick(2 * st.k, (st.name, "process_order"))
        bad = [j for j in range(st.k) if fwd[j] != rev[i][j]]
        if bad:
            ctx.violation("event_result_independent_of_context", {"kind": "process_order", "stage": st.name, "index": i, "tier": tier}, "the same bytes whichever event this process evaluated first", f"events {bad} differ between index order and reverse order (fresh processes)")
    for st in stages(tier):
        v, n, ns = judge_stage(st, tier)
        tot_ctx += n
        tot_states += ns
        ctx.tick(n * st.k)
        for i in range(st.k):
            ctx.sigs.add((st.name, "class", st.sig(i)))
        for kind in ("perm", "split_fresh", "split_same_object", "duplicate", "history", "repeat", "readonly"):
            ctx.sigs.add((st.name, kind))
        ctx.cov.setdefault("stages", {})[st.name] = {"events": st.k, "contexts": n, "object_states_reached": ns}
        seen = set()
        for c, kind, batches, pos in v:
            if (c, kind) in seen:
                continue
            seen.add((c, kind))
            ctx.violation(c, {"kind": "stage", "stage": st.name, "ctx_kind": kind, "batches": batches, "tier": tier}, "same bytes as the event alone on a fresh object" if c.startswith("event") else "holds", str(pos))
    for st in stages(tier):
        v, n = judge_after_error(st)
        tot_ctx += n
        ctx.tick(n, (st.name, "after_error"))
        for c, kind, seq, what in v[:2]:
            ctx.violation(c, {"kind": "after_error", "stage": st.name, "tier": tier}, "same bytes as on a fresh object", what)
    for st in stages(tier):
        v, n = judge_private_tables(st)
        tot_ctx += n
        ctx.tick(n * st.k, (st.name, "private_tables"))
        for c, kind, seq, what in v[:1]:
            ctx.violation(c, {"kind": "private_tables", "stage": st.name, "tier": tier}, "same bytes as on a fresh object", what)
    fb = fresh_bases()
    for (cname, cargs), (sa, sb) in zip(VARIANT_SPECS, variant_pairs()):
        v, n = judge_two_instances(sa, sb, [fb[(cname, tuple(cargs), 0)], fb[(cname, tuple(cargs), 1)]])
        tot_ctx += n
        ctx.tick(n * sa.k, (sa.name, "two_instances"))
        for c, kind, order, what in v[:2]:
            ctx.violation(c, {"kind": "two_instances", "stage": sa.name, "order": order}, "independent", what)
    ctx.states = tot_states
    ctx.transitions = tot_ctx
    ctx.traces = tot_ctx
    sizes = [1, 2, 8191, 8192, 8193] + ([16385] if True else [])
    for N in sizes:
        v = judge_buffer(N, [1, 8191, 8192, 8193])
        ctx.tick(N * 4, ("buffer", N))
        for c, n_, s in v:
            ctx.violation(c, {"kind": "buffer", "N": N}, "identical", f"split/position {s}")
    ctx.sample({"stage": "Taus.__call__", "context": "permutation", "batch": [2, 0, 3, 1], "events": "(beta, logE, u) below/inside/above the table"})
    ctx.sample({"stage": "RegionGeomToO.throw(times)", "context": "split_same_object", "batches": [[0, 1], [2, 3, 4, 5]]})
    ctx.sample({"stage": "tau_energy", "context": "buffer", "N": 8193, "split": 8192})


def replay(case):
    if case["kind"] == "buffer":
        return [(c, "identical", f"{s}") for c, n_, s in judge_buffer(case["N"], [1, 8191, 8192, 8193])]
    if case["kind"] == "after_error":
        out = []
        for s_ in stages(case.get("tier", "quick")):
            if s_.name == case["stage"]:
                out += [(c, "same bytes as on a fresh object", what) for c, kind, seq, what in judge_after_error(s_)[0]]
        return out
    if case["kind"] == "process_order":
        from .. import par

        tier = case.get("tier", "quick")
        i = case["index"]
        # (both orders in forked children, so that the replaying process's own history does not matter)
        rev = par.pmap_isolated(_rev_job, [(tier, i)])[0]
        fwd = par.pmap_isolated(_fwd_job, [(tier, i)])[0]
        bad = [j for j in range(len(fwd)) if fwd[j] != rev[j]]
        return [("event_result_independent_of_context", "the same bytes whichever event this process evaluated first", f"events {bad} differ")] if bad else []
    if case["kind"] == "private_tables":
        out = []
        for s_ in stages(case.get("tier", "quick")):
            if s_.name == case["stage"]:
                out += [(c, "same bytes as on a fresh object", what) for c, kind, seq, what in judge_private_tables(s_)[0]]
        return out
    if case["kind"] == "two_instances":
        out = []
        fb = fresh_bases()
        for (cname, cargs), (sa, sb) in zip(VARIANT_SPECS, variant_pairs()):
            if sa.name == case["stage"]:
                out += [(c, "independent", what) for c, kind, order, what in judge_two_instances(sa, sb, [fb[(cname, tuple(cargs), 0)], fb[(cname, tuple(cargs), 1)]])[0]]
        return out
    st = [s for s in stages(case.get("tier", "quick")) if s.name == case["stage"]]
    out = []
    for s in st:
        v, _, _ = judge_stage(s, case.get("tier", "quick"))
        out += [(c, "holds", str(pos)) for c, kind, batches, pos in v if kind == case["ctx_kind"]]
    return out
