"""C01 — diffuse-mode geometric acceptance estimator is unbiased (E1 lattice; three clauses)."""

import itertools
import math

import numpy as np

from .. import par
from ..ref import aperture_ref as AR
from ..ref import geom_ref as G
from .c02 import geom_cfg, make_geom

PID = "C01"
LEVEL = "exploration"
RULE = (
    "configuration lattice (altitude x angle_from_limb x max_cherenkov_angle x max_azimuth_angle) x interior mid-point "
    "lattices of the unit hypercube. Clause 1 (pointwise change of variables) at every lattice point: weight*mcnorm == "
    "cos(theta_trN)_ref * |J| with the 4x4 Jacobian obtained by central differences (two step sizes, a-posteriori error) "
    "of the PRODUCTION outputs latS, longS, thetaTrSubV, phiTrSubV, and the same weight obtained from the real "
    "mcintegral on single-event batches; clause 2 (image == region): monotone, independent, onto per coordinate + "
    "spot azimuth is a true azimuth + kept events inside annulus and cone; clause 3 (quadrature): real mcintegral on "
    "equal-weight mid-point lattices, Richardson-extrapolated in the singular dimension, against an independent "
    "aperture integral in physical coordinates. Distinct by (configuration, clause, kept/not kept, lattice level)."
)
ASSUMPTIONS = [
    "faces of the cube belong to C02; this check uses interior lattices",
    "'converges' is decided a-posteriori at finite resolution (difference of successive refinement levels), no limit is proved",
    "the region's azimuth origin is not fixed by the property: only the width of the azimuth range is judged",
    "quadrature clause restricted to cone angles <= 60 deg (beyond that the equal-weight rule converges too slowly to decide at feasible sizes); the pointwise clause covers up to 89 deg",
]


def _throw(g, U):
    with np.errstate(all="ignore"):
        g.throw(U.copy())
    return dict(
        lat=np.array(g.latS, dtype=float),
        lon=np.array(g.longS, dtype=float),
        th=np.array(g.thetaTrSubV, dtype=float),
        ph=np.array(g.phiTrSubV, dtype=float),
        L=np.array(g.losPathLen, dtype=float),
        phiS=np.array(g.phiS, dtype=float),
        ctn=np.array(g.costhetaTrSubN, dtype=float),
        cnv=np.array(g.costhetaNSubV, dtype=float),
        ctv=np.array(g.costhetaTrSubV, dtype=float),
        mask=np.array(g.event_mask, dtype=bool),
        beta=np.array(g.betaTrSubN, dtype=float),
    )


def _jac(g, U, h0):
    """|J| = |det d(P_tangent(2), theta, phi)/du| * sin(theta) by central differences of production outputs."""
    N = U.shape[1]
    base = _throw(g, U)
    n0 = G.unit_from_latlong(np.radians(base["lat"]), np.radians(base["lon"]))
    # tangent basis at the spot
    ref = np.where(np.abs(n0[:, 2:3]) < 0.9, np.array([[0.0, 0.0, 1.0]]), np.array([[1.0, 0.0, 0.0]]))
    t1 = np.cross(ref, n0)
    t1 /= np.linalg.norm(t1, axis=1)[:, None]
    t2 = np.cross(n0, t1)
    M = np.zeros((N, 4, 4))
    for k in range(4):
        dist = np.minimum(U[k], 1 - U[k])
        h = np.minimum(h0, 0.1 * dist)
        Up, Um = U.copy(), U.copy()
        Up[k] += h
        Um[k] -= h
        hh = Up[k] - Um[k]
        a, b = _throw(g, Up), _throw(g, Um)
        Pa = G.R * G.unit_from_latlong(np.radians(a["lat"]), np.radians(a["lon"]))
        Pb = G.R * G.unit_from_latlong(np.radians(b["lat"]), np.radians(b["lon"]))
        dP = (Pa - Pb) / hh[:, None]
        M[:, 0, k] = np.sum(dP * t1, axis=1)
        M[:, 1, k] = np.sum(dP * t2, axis=1)
        M[:, 2, k] = (a["th"] - b["th"]) / hh
        dph = a["ph"] - b["ph"]
        dph = (dph + np.pi) % (2 * np.pi) - np.pi
        M[:, 3, k] = dph / hh
    with np.errstate(all="ignore"):
        det = np.abs(np.linalg.det(M))
    return det * np.sin(base["th"]), base


def judge_pointwise(gc, U):
    g = make_geom(gc)
    J1, base = _jac(g, U, 2e-5)
    J2, _ = _jac(g, U, 4e-5)
    D, P, n = G.vectors(gc["alt"], gc["lat"], gc["lon"], base["lat"], base["lon"])
    with np.errstate(all="ignore"):
        d, V, Lv, cnv = G.trajectory(D, P, n, base["th"], base["ph"])
        beta_ref, ct_ref = G.emergence(d, n)
        w = base["ctn"] / (base["cnv"] * base["ctv"])
        lhs = w * g.mcnorm
        rhs = ct_ref * J1
        apost = np.abs(J1 - J2) / np.maximum(J1, 1e-300)
        rel = np.abs(lhs - rhs) / np.maximum(np.abs(rhs), 1e-300)
    kept = base["mask"] & np.isfinite(rel)
    determinate = kept & (apost < 1e-4)
    out = []
    bad = determinate & ~(rel <= 2e-5 + 4 * apost)
    for i in np.where(bad)[0]:
        out.append(("pointwise_change_of_variables", i, float(rhs[i]), float(lhs[i])))
    return out, dict(kept=int(kept.sum()), determinate=int(determinate.sum()), maxrel=float(np.max(rel[determinate])) if determinate.any() else 0.0), base, w


def judge_single_event_weight(gc, U, idx):
    """the weight the REAL mcintegral gives a single thrown event == weight from the public per-event arrays"""
    g = make_geom(gc)
    out = []
    for i in idx:
        u = U[:, i : i + 1].copy()
        with np.errstate(all="ignore"):
            g.throw(u)
            if not g.event_mask[0]:
                continue
            w = float(g.costhetaTrSubN[0] / (g.costhetaNSubV[0] * g.costhetaTrSubV[0]))
            r = g.mcintegral(np.array([np.inf]), np.cos(gc["cone"]) * (1 - 1e-15), np.ones(1), 0.0, 1.0, 1.0)
        exp = w * g.mcnorm
        if not (abs(r[1] - exp) <= 1e-12 * abs(exp)):
            out.append(("mcintegral_weight", int(i), exp, float(r[1])))
    return out


POOL = np.array([[(i * p % 97 + 0.5) / 97.0 for i in range(1, 10)] for p in (37, 53, 11, 71)])  # 9 fixed, all-distinct points


def judge_batch_sizes(gc):
    """the geometry-only estimate of a batch of N = 1..9 thrown events, times N, is the sum of the N single-event
    estimates (an event's weight does not depend on how many events are thrown with it)"""
    out = []
    singles = []
    with np.errstate(all="ignore"):
        for i in range(POOL.shape[1]):
            g = make_geom(gc)
            g.throw(POOL[:, i : i + 1].copy())
            singles.append(float(g.mcintegral(np.array([np.inf]), np.cos(gc["cone"]) * (1 - 1e-15), np.ones(1), 0.0, 1.0, 1.0)[1]) if g.event_mask[0] else 0.0)
        for n in range(1, POOL.shape[1] + 1):
            g = make_geom(gc)
            g.throw(POOL[:, :n].copy())
            k = int(np.sum(g.event_mask))
            got = float(g.mcintegral(np.full(k, np.inf), np.cos(gc["cone"]) * (1 - 1e-15), np.ones(k), 0.0, 1.0, 1.0)[1]) * n if k else 0.0
            if k:
                # compute() integrates twice per throw (optical, then radio): on small batches - where the mask may select
                # everything or a single event - the second and third evaluation repeat the first, bit for bit
                for rep in (2, 3):
                    again = float(g.mcintegral(np.full(k, np.inf), np.cos(gc["cone"]) * (1 - 1e-15), np.ones(k), 0.0, 1.0, 1.0)[1]) * n
                    if again != got:
                        out.append(("integral_repeatable_on_one_throw", f"N={n} valid={k} evaluation {rep}", got, again))
                        break
            exp = float(sum(singles[:n]))
            if not (abs(got - exp) <= 1e-11 * max(abs(exp), 1e-300)):
                out.append(("estimator_independent_of_batch_size", f"N={n}", exp, got))
    return out


def judge_aftermath(gc):
    """the estimate of the CURRENT throw after a refused throw (wrong shape) and after the caller overwrote every array
    the accessors returned (nssmc/checks/c02.py): unchanged, bit for bit"""
    from .c02 import judge_refused_and_reread

    out = []
    for n in (6, 40):
        out += [(c, f"N={n}", e, o) for c, e, o in judge_refused_and_reread(gc, n)]
    return out


def judge_count_path(gc):
    """thrown by COUNT (what a run does): the N events are the events of the 4N numbers the generator hands out, each
    used as one coordinate of one event, untransformed -- whatever the layout they are drawn in. The generator is owned
    (it returns a fixed pool); the reference is the explicit throw of the numbers it returned."""
    from ..own import RngStub

    out = []
    for n in (1, 4, 9):
        flat = np.resize(POOL.T.ravel(), 4 * n)
        for via in ("throw", "call"):
            g = make_geom(gc)
            stub = RngStub(fn=lambda i, m, _f=flat: np.resize(_f, m))
            with stub.installed(), np.errstate(all="ignore"):
                try:
                    g.throw(n) if via == "throw" else g(n)
                except Exception as ex:
                    out.append(("count_path_uses_the_generator_numbers", f"{via}({n})", "events", f"{type(ex).__name__}: {str(ex)[:80]}"))
                    continue
            got = (np.sort(np.asarray(g.thetaTrSubV, dtype=float)).tobytes(), np.sort(np.asarray(g.phiS, dtype=float)).tobytes(), np.sort(np.asarray(g.losPathLen, dtype=float)).tobytes(), np.sort(np.asarray(g.phiTrSubV, dtype=float)).tobytes())
            rec = np.concatenate([np.asarray(r, dtype=float).ravel() for r in stub.returned]) if stub.returned else np.zeros(0)
            ok = False
            if rec.size == 4 * n:
                for V in (rec.reshape(4, n), rec.reshape(n, 4).T):
                    h = make_geom(gc)
                    with np.errstate(all="ignore"):
                        h.throw(V.copy())
                    ref = (np.sort(np.asarray(h.thetaTrSubV, dtype=float)).tobytes(), np.sort(np.asarray(h.phiS, dtype=float)).tobytes(), np.sort(np.asarray(h.losPathLen, dtype=float)).tobytes(), np.sort(np.asarray(h.phiTrSubV, dtype=float)).tobytes())
                    ok = ok or ref == got
            if not ok:
                out.append(("count_path_uses_the_generator_numbers", f"{via}({n})", f"the events of the {4 * n} numbers drawn", f"{rec.size} numbers drawn; events differ from their explicit throw"))
    return out


def judge_two_instances(gc):
    """a second, differently configured geometry object constructed (and used) while the first is alive does not change
    the first one's estimate"""
    def est(g):
        with np.errstate(all="ignore"):
            g.throw(POOL.copy())
            k = int(np.sum(g.event_mask))
            return float(g.mcintegral(np.full(k, np.inf), np.cos(gc["cone"]) * (1 - 1e-15), np.ones(k), 0.0, 1.0, 1.0)[1]) if k else 0.0

    alone = est(make_geom(gc))
    gc2 = dict(gc, cone=gc["cone"] / 2, limb=gc["limb"] * 0.7, az=gc["az"] / 2)
    out = []
    a = make_geom(gc)
    b = make_geom(gc2)
    got = est(a)
    if got != alone:
        out.append(("estimator_independent_of_other_instances", "second instance constructed", alone, got))
    est(b)
    got = est(a)
    if got != alone:
        out.append(("estimator_independent_of_other_instances", "second instance constructed and used", alone, got))
    return out


def judge_region(gc, m):
    """clause 2 on an m^4 mid-point lattice"""
    g = make_geom(gc)
    a = (np.arange(m) + 0.5) / m
    U = np.array(list(itertools.product(a, repeat=4))).T
    b = _throw(g, U)
    out = []
    sh = (m, m, m, m)
    coords = {"theta(u1)": (b["th"], 0), "phi(u2)": (b["ph"], 1), "phiS(u3)": (b["phiS"], 2), "L(u4)": (b["L"], 3)}
    Lmin, Lmax, aH = G.limits(gc["alt"], gc["limb"])
    for name, (arr, ax) in coords.items():
        A = np.moveaxis(arr.reshape(sh), ax, 0).reshape(m, -1)
        if not np.all(A == A[:, :1]):
            out.append(("coordinate_independent", name, "depends only on its own u", "varies with another u"))
        line = A[:, 0]
        dl = np.diff(line)
        if not (np.all(dl > 0) or np.all(dl < 0)):
            out.append(("coordinate_monotone", name, "strictly monotone", line.tolist()[:6]))
    # ends (u -> 0 and u -> 1), through the production map itself
    eps = 1e-12
    Ue = np.array([[eps, 0.3, 0.3, 0.3], [1 - eps, 0.3, 0.3, 0.3], [0.3, eps, 0.3, 0.3], [0.3, 1 - eps, 0.3, 0.3], [0.3, 0.3, eps, 0.3], [0.3, 0.3, 1 - eps, 0.3], [0.3, 0.3, 0.3, eps], [0.3, 0.3, 0.3, 1 - eps]]).T
    e = _throw(g, Ue)
    ends = [
        ("theta_min", e["th"][0], 0.0, 1e-5 + 2e-6 * 1),
        ("theta_max", e["th"][1], gc["cone"], 1e-9 + 1e-5 * 0),
        ("phi_span", abs(e["ph"][3] - e["ph"][2]), 2 * np.pi, 1e-9),
        ("phiS_span", abs(e["phiS"][5] - e["phiS"][4]), gc["az"], 1e-9),
        ("L_at_u4_0", e["L"][6], Lmax, 1e-4 * Lmax),
        ("L_at_u4_1", e["L"][7], Lmin, 1e-9 * Lmax),
    ]
    for name, got, exp, tol in ends:
        if name == "theta_max":
            tol = 1e-5
        if not (abs(got - exp) <= tol):
            out.append(("coordinate_onto", name, float(exp), float(got)))
    # the spot azimuth about the detector nadir is a true azimuth: psi - (+-)phiS constant
    fin = np.isfinite(b["lat"])
    Dhat = G.unit_from_latlong(np.array(gc["lat"], dtype=float), np.array(gc["lon"], dtype=float))
    nS = G.unit_from_latlong(np.radians(b["lat"]), np.radians(b["lon"]))
    ref = np.array([0.0, 0.0, 1.0]) if abs(Dhat[2]) < 0.9 else np.array([1.0, 0.0, 0.0])
    e_east = np.cross(ref, Dhat)
    e_east /= np.linalg.norm(e_east)
    e_north = np.cross(Dhat, e_east)
    psi = np.arctan2(nS @ e_east, nS @ e_north)
    ok_az = False
    for sgn in (1, -1):
        dlt = (psi - sgn * b["phiS"] + np.pi) % (2 * np.pi) - np.pi
        dlt0 = (dlt - dlt[0] + np.pi) % (2 * np.pi) - np.pi
        if np.all(np.abs(dlt0[fin]) <= 1e-6):
            ok_az = True
    if not ok_az:
        out.append(("spot_azimuth_is_azimuth", "phiS", "psi = +-phiS + const", "not an azimuth about the nadir"))
    # kept events lie inside the region
    D, P, n = G.vectors(gc["alt"], gc["lat"], gc["lon"], b["lat"], b["lon"])
    dist = np.linalg.norm(P - D, axis=1)
    k = b["mask"]
    if np.any(k & ~((dist >= Lmin * (1 - 1e-9)) & (dist <= Lmax * (1 + 1e-9)))):
        out.append(("image_in_annulus", "L", [Lmin, Lmax], "kept event outside"))
    if np.any(k & ~(b["th"] <= gc["cone"] * (1 + 1e-12))):
        out.append(("image_in_cone", "theta", gc["cone"], float(b["th"][k].max())))
    return out, int(U.shape[1]), int(k.sum())


HISTORY_BAD = []


def quad_estimate(gc, m1, m2, m4s):
    g = make_geom(gc)
    res = []
    ntot = 0
    for m4 in m4s:
        u1 = (np.arange(m1) + 0.5) / m1
        u2 = (np.arange(m2) + 0.5) / m2
        u3 = np.array([0.25, 0.75])
        u4 = (np.arange(m4) + 0.5) / m4
        # the lattice is pushed through throw/mcintegral in slabs of u1 (bounded memory); the equal-weight mean of
        # the slab means is the mean over the whole lattice because all slabs have the same number of points
        per = max(1, int(2_000_000 // (m2 * 2 * m4)))
        acc = 0.0
        nsl = 0
        first = None
        for s0 in range(0, m1, per):
            U1, U2, U3, U4 = [a.ravel() for a in np.meshgrid(u1[s0 : s0 + per], u2, u3, u4, indexing="ij")]
            with np.errstate(all="ignore"):
                g.throw(np.stack([U1, U2, U3, U4]))
                n = int(g.event_mask.sum())
                r = g.mcintegral(np.full(n, np.inf), np.cos(gc["cone"]) * (1 - 1e-15), np.ones(n), 0.0, 1.0, 1.0)
                if m4 == m4s[0] and s0 == 0:
                    # history on one throw (compute() integrates twice per throw): a call with a narrower cone in
                    # between must not change what the next call returns
                    g.mcintegral(np.full(n, np.inf), np.cos(0.5 * gc["cone"]), np.ones(n), 0.0, 1.0, 1.0)
                    r2 = g.mcintegral(np.full(n, np.inf), np.cos(gc["cone"]) * (1 - 1e-15), np.ones(n), 0.0, 1.0, 1.0)
                    if float(r2[1]) != float(r[1]):
                        HISTORY_BAD.append((float(r[1]), float(r2[1])))
            acc += float(r[1]) * len(U1)
            nsl += len(U1)
        res.append(acc / nsl)
        ntot = nsl
    # error of the equal-weight rule in the singular dimension behaves like m4^(-1/2): Richardson for ratio 4
    return 2 * res[-1] - res[-2], res, ntot


def judge_quadrature(gc, levels, m4s):
    A, Aerr = AR.aperture_with_error(gc["alt"], gc["limb"], gc["cone"], gc["az"])
    ext = []
    npts = 0
    for m1, m2 in levels:
        q, raw, n = quad_estimate(gc, m1, m2, m4s)
        ext.append(q)
        npts += n
    delta = abs(ext[-1] - ext[-2]) if len(ext) > 1 else abs(ext[-1]) * 1e-2
    tol = 3 * delta + 1e-3 * A + Aerr  # (floor calibrated on the thorough lattice: worst residual of the extrapolated equal-weight rule on the unchanged tree is 3.3e-4, at 100 m altitude and a 0.1 deg cone)
    out = []
    if not (abs(ext[-1] - A) <= tol):
        out.append(("quadrature_converges_to_aperture", "mcintegral geo-only", float(A), float(ext[-1])))
    if HISTORY_BAD:
        out.append(("estimator_independent_of_call_history", "second call on the same throw", HISTORY_BAD[0][0], HISTORY_BAD[0][1]))
        del HISTORY_BAD[:]
    return out, dict(A_ref=A, A_ref_err=Aerr, Q=ext, tol=tol, rel=float(ext[-1] / A - 1)), npts


def config_lattice(tier):
    def aH(alt):
        return math.degrees(math.asin(G.R / (G.R + alt)))

    if tier == "quick":
        alts = [5.0, 33.0, 525.0]
        limbs = lambda a: [7.0 if aH(a) > 8 else 0.5 * aH(a), 0.5, 0.6 * aH(a)]
        cones = [3.0, 30.0]
        azs = [90.0, 360.0]
    else:
        alts = [0.1, 1.0, 5.0, 33.0, 525.0, 2000.0, 36000.0]
        limbs = lambda a: sorted({0.5 if aH(a) > 0.6 else 0.3 * aH(a), min(7.0, 0.7 * aH(a)), 0.5 * aH(a), 0.999 * aH(a)})
        cones = [0.1, 3.0, 30.0, 60.0, 89.0]
        azs = [1.0, 90.0, 360.0]
    out = []
    for a in alts:
        for lb in limbs(a):
            for c in cones:
                for z in azs:
                    out.append(geom_cfg(a, 0.2, 0.3, lb, c, z))
    return out


def _one(args):
    """one configuration; an exception escaping from production code is returned as a finding, not raised"""
    try:
        return _one_inner(args)
    except Exception as ex:
        import traceback

        from ..core import raised_in_production

        if not raised_in_production(traceback.format_exc()):
            raise
        gc, tier = args
        return dict(gc=gc, raised=f"{type(ex).__name__}: {str(ex)[:160]}", pw=[], sw=[], rg=[], info=dict(kept=0, determinate=0, maxrel=0.0), n_pw=0, n_sw=0, n_rg=0, kept_rg=0, quad=None)


def _one_inner(args):
    gc, tier = args
    m = 6 if tier == "quick" else 8
    a = (np.arange(m) + 0.5) / m
    U = np.array(list(itertools.product(a, repeat=4))).T
    v1, info, base, w = judge_pointwise(gc, U)
    idx = list(range(0, U.shape[1], max(1, U.shape[1] // 40)))
    vs = judge_single_event_weight(gc, U, idx)
    v2, n2, k2 = judge_region(gc, 6 if tier == "quick" else 8)
    v2 = list(v2) + judge_batch_sizes(gc) + judge_two_instances(gc) + judge_count_path(gc) + judge_aftermath(gc)
    res = dict(gc=gc, pw=[(c, U[:, i].tolist(), e, o) for c, i, e, o in v1[:10]], sw=[(c, U[:, i].tolist(), e, o) for c, i, e, o in vs[:10]], rg=v2, info=info, n_pw=int(U.shape[1]), n_sw=len(idx), n_rg=n2, kept_rg=k2, quad=None)
    if math.degrees(gc["cone"]) <= 60.0 + 1e-9:
        levels = [(16, 32), (32, 64)] if tier == "quick" else [(16, 32), (32, 64), (64, 128)]
        m4s = (256, 1024) if tier == "quick" else (1024, 4096)
        vq, qi, npts = judge_quadrature(gc, levels, m4s)
        res["quad"] = dict(v=vq, info=qi, n=npts, levels=levels, m4s=list(m4s))
    return res


RUN_SPECS = [
    dict(mode="Diffuse", optical=True, radio=True, spectrum="mono", logE=10.5, altitude=33.0, n=150),  # many taus decay above the detector
    dict(mode="Diffuse", optical=True, radio=False, spectrum="power", n=150),
    dict(mode="Diffuse", optical=False, radio=True, spectrum="mono", logE=9.0, altitude=400.0, n=150),
]


def judge_run_header(spec):
    """the geometry-only integral a full run reports is this estimator over the run's own thrown events (nothing else
    the run knows -- decay points, signals -- enters it); reference integral of C03's wiring clause"""
    from .c03 import judge_wiring

    v, _, _ = judge_wiring(dict(spec))
    return [(c, e, o) for c, e, o in v if c == "header_geo_integral"]


def run(ctx):
    for spec in RUN_SPECS:
        ctx.tick(spec["n"], ("run_header", spec["altitude"] if "altitude" in spec else 525.0))
        for c, e, o in judge_run_header(spec):
            ctx.violation("run_reports_the_estimator_of_its_thrown_events", {"kind": "run_header", "spec": spec, "gc": None}, e, o)
    cfgs = config_lattice(ctx.tier)
    ctx.cov["configurations"] = len(cfgs)
    results = par.pmap(_one, [(gc, ctx.tier) for gc in cfgs])
    worst = 0.0
    det = kept = 0
    qrels = []
    for ci, r in enumerate(results):
        gc = r["gc"]
        ctx.tick(r["n_pw"] * 17 + r["n_sw"] + r["n_rg"])
        ctx.sigs.add(("pw", ci, r["info"]["kept"] > 0, r["info"]["determinate"] > 0))
        ctx.sigs.add(("rg", ci, r["kept_rg"] > 0))
        worst = max(worst, r["info"]["maxrel"])
        det += r["info"]["determinate"]
        kept += r["info"]["kept"]
        if r.get("raised"):
            ctx.violation("no_exception_from_geometry_or_integral", {"kind": "raise", "gc": gc, "tier": ctx.tier}, "throw / mcintegral sequences on one geometry object work", r["raised"])
        for c, u, e, o in r["pw"]:
            ctx.violation(c, {"kind": "pw", "gc": gc, "u": u}, e, o)
        for c, u, e, o in r["sw"]:
            ctx.violation(c, {"kind": "sw", "gc": gc, "u": u}, e, o)
        for c, name, e, o in r["rg"]:
            ctx.violation(c, {"kind": "rg", "gc": gc, "name": name, "tier": ctx.tier}, e, o)
        if r["quad"]:
            q = r["quad"]
            ctx.tick(q["n"])
            ctx.sigs.add(("quad", ci))
            qrels.append(abs(q["info"]["rel"]))
            for c, name, e, o in q["v"]:
                ctx.violation(c, {"kind": "quad", "gc": gc, "levels": q["levels"], "m4s": q["m4s"]}, e, o)
            if ci in (0, len(results) // 2):
                ctx.sample({"config": gc, "A_ref_km2sr": q["info"]["A_ref"], "Q_extrapolated_per_level": q["info"]["Q"], "relative_difference": q["info"]["rel"], "tolerance": q["info"]["tol"]})
    ctx.cov["pointwise"] = {"kept_points": kept, "determinate_points": det, "worst_relative_mismatch": worst}
    ctx.cov["quadrature"] = {"configurations": len(qrels), "worst_relative_difference": max(qrels) if qrels else None, "median_relative_difference": float(np.median(qrels)) if qrels else None}
    if det < 0.5 * max(kept, 1):
        ctx.note(f"only {det} of {kept} kept lattice points had a determinate finite-difference Jacobian")


def replay(case):
    gc = case["gc"]
    k = case["kind"]
    if k == "run_header":
        return [("run_reports_the_estimator_of_its_thrown_events", e, o) for c, e, o in judge_run_header(case["spec"])]
    if k == "raise":
        r = _one((gc, case.get("tier", "quick")))
        return [("no_exception_from_geometry_or_integral", "no exception", r["raised"])] if r.get("raised") else []
    if k == "pw":
        U = np.array(case["u"], dtype=float).reshape(4, 1)
        v, _, _, _ = judge_pointwise(gc, U)
        return [(c, e, o) for c, i, e, o in v]
    if k == "sw":
        U = np.array(case["u"], dtype=float).reshape(4, 1)
        return [(c, e, o) for c, i, e, o in judge_single_event_weight(gc, U, [0])]
    if k == "rg":
        v, _, _ = judge_region(gc, 6 if case.get("tier", "quick") == "quick" else 8)
        v = list(v) + judge_batch_sizes(gc) + judge_two_instances(gc) + judge_count_path(gc) + judge_aftermath(gc)
        return [(c, e, o) for c, name, e, o in v if name == case["name"]]
    if k == "quad":
        v, _, _ = judge_quadrature(gc, [tuple(x) for x in case["levels"]], tuple(case["m4s"]))
        return [(c, e, o) for c, name, e, o in v]
    return []
