"""C19 — standard-atmosphere pressure/altitude are mutual inverses everywhere (E1 lattice explorer)."""

import importlib

import numpy as np

from ..floats import ulp_ball

PID = "C19"
LEVEL = "exploration"
RULE = (
    "exhaustive enumeration of a value alphabet: regular altitude grid 0..120 km, every double within +-K ulp of each "
    "of the 7 layer-boundary altitudes and boundary pressures, decade offsets around them, end points 0/120/+inf; "
    "each point is pushed through both shipped copies in four call forms (float, 0-d, 1-d, 2-d); every ordered triple over one "
    "value per layer is converted as ONE array object that is re-used (array left untouched, repeat call, lanes equal the "
    "elements alone, column views, read-only input, valid call after refused calls). A case is "
    "non-trivial/distinct by (clause family, layer index of the point, side of the nearest boundary, call form)."
)
ASSUMPTIONS = [
    "between alphabet points nothing is claimed",
    "round-trip domain for pressures is [P(120 km), 101325 Pa] plus decades down to 1e-30 Pa; 0 <-> +inf checked separately",
]

MODS = {
    "atmosphere": "nuspacesim.simulation.atmosphere.pressure",
    "optical": "nuspacesim.simulation.eas_optical.atmospheric_models",
}
ZTOL = 1e-6
PTOL = 1e-6
RISE = 3e-7


def _mods():
    return {k: importlib.import_module(v) for k, v in MODS.items()}


def _consts():
    import nuspacesim.constants as const

    return const


def _call(mod, fn, x, form):
    f = getattr(mod, fn)
    if form == "float":
        return np.array([np.asarray(f(float(v))).reshape(()) for v in x], dtype=np.float64)
    if form == "0d":
        return np.array([np.asarray(f(np.array(float(v)))).reshape(()) for v in x], dtype=np.float64)
    if form == "1d":
        return np.asarray(f(np.array(x, dtype=np.float64)))
    if form == "2d":
        a = np.array(x, dtype=np.float64)
        n = len(a)
        pad = (-n) % 2
        a2 = np.concatenate([a, a[:pad]]).reshape(2, -1)
        return np.asarray(f(a2)).reshape(-1)[:n]
    if form.startswith("dt:"):
        return np.asarray(f(np.array(x, dtype=np.float64).astype(form[3:])), dtype=np.float64)
    if form == "pyint":
        return np.array([np.asarray(f(int(v)), dtype=np.float64).reshape(()) for v in x], dtype=np.float64)
    raise ValueError(form)


DTYPE_FORMS = ["dt:f4", "dt:>f4", "dt:>f8", "dt:i8", "dt:i4", "dt:u2", "pyint"]


def _layer_z(z, const):
    R = const.earth_radius
    with np.errstate(invalid="ignore"):
        h = np.where(np.isfinite(z), z * R / (z + R), np.inf)
    Hb = const.std_atm_geopotential_height
    return np.searchsorted(Hb, h, side="right") - 1


def z_alphabet(tier, const):
    R = const.earth_radius
    K = 64 if tier == "quick" else 4096
    step = 1000 if tier == "quick" else 10000
    parts = [np.arange(0, 120 * step + 1) / float(step)]
    Hb = const.std_atm_geopotential_height[1:8]
    zb = R * Hb / (R - Hb)
    for b in zb:
        parts.append(ulp_ball(b, K))
        offs = 10.0 ** np.arange(-12, -2)
        parts.append(b + offs)
        parts.append(b - offs)
    parts.append(np.array([0.0, 5e-324, 1e-300, 1e-12, 120.0, np.nextafter(120.0, 0)]))
    z = np.unique(np.concatenate(parts))
    return z[(z >= 0) & (z <= 120.0)], zb


def p_alphabet(tier, const, mod, z):
    K = 64 if tier == "quick" else 4096
    parts = [np.asarray(mod.us_std_atm_pressure_from_altitude(z))]
    for pb in const.std_atm_pressure[:8]:
        b = ulp_ball(pb, K)
        parts.append(b)
        offs = 10.0 ** np.arange(-12, -2)
        parts.append(pb * (1 + offs))
        parts.append(pb * (1 - offs))
    parts.append(10.0 ** np.arange(-30.0, 5.0, 0.25))
    parts.append(np.array([101325.0, const.std_atm_ground_pressure]))
    p = np.unique(np.concatenate(parts))
    p = p[np.isfinite(p) & (p >= 1e-30) & (p <= const.std_atm_ground_pressure)]
    return p


def run(ctx):
    const = _consts()
    mods = _mods()
    A = mods["atmosphere"]
    z, zb = z_alphabet(ctx.tier, const)
    ctx.cov["alphabet"] = {"z_points": int(len(z)), "ulp_radius": 64 if ctx.tier == "quick" else 4096}
    lay = _layer_z(z, const)
    side = np.sign(z[:, None] - zb[None, :]).astype(int)
    nearest = np.abs(z[:, None] - zb[None, :]).argmin(axis=1)
    sidek = side[np.arange(len(z)), nearest]

    ref_P = None
    for mname, mod in mods.items():
        P = _call(mod, "us_std_atm_pressure_from_altitude", z, "1d")
        zr = _call(mod, "us_std_atm_altitude_from_pressure", P, "1d")
        ctx.tick(len(z))
        ctx.add_sig_rows(("rt_z", mname), lay, sidek)
        bad = ~(np.abs(zr - z) <= ZTOL)
        for i in np.where(bad)[0][:50]:
            ctx.violation("rt_z", {"kind": "z", "z": z[i], "module": mname}, z[i], zr[i])
        bad = ~(P > 0)
        for i in np.where(bad)[0][:50]:
            ctx.violation("positive", {"kind": "z", "z": z[i], "module": mname}, ">0", P[i])
        # monotone up to tabulation steps, along the sorted alphabet
        with np.errstate(invalid="ignore", divide="ignore"):
            rise = (P[1:] - P[:-1]) / P[:-1]
        bad = ~(rise <= RISE)
        ctx.tick(len(rise))
        for i in np.where(bad)[0][:50]:
            ctx.violation(
                "monotone", {"kind": "zpair", "z0": z[i], "z1": z[i + 1], "module": mname}, f"rise<={RISE}", rise[i]
            )
        if ref_P is None:
            ref_P = P
            ref_zr = zr
        else:
            ctx.tick(len(z))
            bad = (P.view(np.int64) != ref_P.view(np.int64)) | (zr.view(np.int64) != ref_zr.view(np.int64))
            for i in np.where(bad)[0][:50]:
                ctx.violation("modules_agree", {"kind": "z", "z": z[i], "module": "both"}, ref_P[i], P[i])

    # pressures
    p = p_alphabet(ctx.tier, const, A, z)
    ctx.cov["alphabet"]["p_points"] = int(len(p))
    Pb = const.std_atm_pressure[:8]
    play = np.searchsorted(-Pb, -p, side="left")
    nearestp = np.abs(np.log(p[:, None] / Pb[None, :])).argmin(axis=1)
    psd = np.sign(p - Pb[nearestp]).astype(int)
    ref = None
    for mname, mod in mods.items():
        zz = _call(mod, "us_std_atm_altitude_from_pressure", p, "1d")
        pr = _call(mod, "us_std_atm_pressure_from_altitude", zz, "1d")
        ctx.tick(len(p))
        ctx.add_sig_rows(("rt_p", mname), play, psd)
        bad = ~(np.abs(pr - p) <= PTOL * p)
        for i in np.where(bad)[0][:50]:
            ctx.violation("rt_p", {"kind": "p", "p": p[i], "module": mname}, p[i], pr[i])
        if ref is None:
            ref = (zz, pr)
        else:
            ctx.tick(len(p))
            bad = (zz.view(np.int64) != ref[0].view(np.int64)) | (pr.view(np.int64) != ref[1].view(np.int64))
            for i in np.where(bad)[0][:50]:
                ctx.violation("modules_agree", {"kind": "p", "p": p[i], "module": "both"}, ref[0][i], zz[i])

    # end points
    for mname, mod in mods.items():
        for form in ("float", "0d", "1d", "2d"):
            ctx.tick(2, ("ends", mname, form))
            for r in _ends(mod, form):
                ctx.violation(r[0], {"kind": "ends", "module": mname, "form": form}, r[1], r[2])

    # call forms on a sub-alphabet: every boundary ball (reduced radius) + coarse grid
    zs = np.unique(np.concatenate([ulp_ball(b, 4) for b in zb] + [np.arange(0, 121, 1.0), [0.0, 120.0]]))
    ps = np.unique(np.concatenate([ulp_ball(b, 4) for b in Pb] + [10.0 ** np.arange(-3, 5.01, 0.25)]))
    ps = ps[ps <= const.std_atm_ground_pressure]
    for mname, mod in mods.items():
        base_P = _call(mod, "us_std_atm_pressure_from_altitude", zs, "1d")
        base_z = _call(mod, "us_std_atm_altitude_from_pressure", ps, "1d")
        for form in ("float", "0d", "2d"):
            Pf = _call(mod, "us_std_atm_pressure_from_altitude", zs, form)
            zf = _call(mod, "us_std_atm_altitude_from_pressure", ps, form)
            ctx.tick(len(zs) + len(ps), ("forms", mname, form))
            for i in np.where(Pf.view(np.int64) != base_P.view(np.int64))[0][:20]:
                ctx.violation("forms_agree", {"kind": "zform", "z": zs[i], "module": mname, "form": form}, base_P[i], Pf[i])
            for i in np.where(zf.view(np.int64) != base_z.view(np.int64))[0][:20]:
                ctx.violation("forms_agree", {"kind": "pform", "p": ps[i], "module": mname, "form": form}, base_z[i], zf[i])
    # the same numbers handed in as single-precision, byte-swapped and integer arrays / Python ints (the FITS cloud maps
    # hand big-endian float32 pressures to these functions): the double-precision result for the numbers held, bit for bit
    for mname, mod in mods.items():
        for form in DTYPE_FORMS:
            integer = form in ("pyint",) or form[3:4] in ("i", "u")
            zs_f = np.arange(0, 121, 1.0) if integer else np.unique(np.concatenate([zs.astype("f4").astype(float), np.arange(0, 121, 1.0)]))
            zs_f = zs_f[(zs_f >= 0) & (zs_f <= 120)]
            ps_f = np.array([1.0, 2.0, 5.0, 10.0, 54.0, 55.0, 100.0, 868.0, 869.0, 1000.0, 5474.0, 5475.0, 22632.0, 22633.0, 50000.0, 65535.0][: 16 if form != "dt:u2" else 16]) if integer else np.unique(ps.astype("f4").astype(float))
            if integer and form not in ("dt:u2",):
                ps_f = np.concatenate([ps_f, [101325.0, 100000.0]])
            ps_f = ps_f[(ps_f > 0) & (ps_f <= const.std_atm_ground_pressure)]
            for fn, xs, kind, key in (("us_std_atm_pressure_from_altitude", zs_f, "zdtype", "z"), ("us_std_atm_altitude_from_pressure", ps_f, "pdtype", "p")):
                base = _call(mod, fn, xs, "1d")
                ctx.tick(len(xs), ("dtype_form", mname, form, key))
                try:
                    got = _call(mod, fn, xs, form)
                except Exception as ex:
                    ctx.violation("input_form_no_exception", {"kind": kind, key: float(xs[0]), "module": mname, "form": form, "all": True}, "values", f"{type(ex).__name__}: {str(ex)[:100]}")
                    continue
                for i in np.where(got.view(np.int64) != base.view(np.int64))[0][:5]:
                    ctx.violation("forms_agree", {"kind": kind, key: float(xs[i]), "module": mname, "form": form}, base[i], got[i])
    # numpy's floating-point error state belongs to the caller: with every error class set to 'raise' the functions still
    # return the same values (lanes that are computed and then discarded must not trip it); subnormal pressures, whose
    # quotient P_b/P genuinely overflows, are left out
    zs_e = np.concatenate([zs, [np.inf]])
    ps_e = np.concatenate([ps[ps >= 1e-300], [0.0]])
    for mname, mod in mods.items():
        for fn, xs, kind, key in (("us_std_atm_pressure_from_altitude", zs_e, "zerr", "z"), ("us_std_atm_altitude_from_pressure", ps_e, "perr", "p")):
            base = _call(mod, fn, xs, "1d")
            for form in ("1d", "float"):
                ctx.tick(len(xs), ("errstate", mname, key, form))
                try:
                    with np.errstate(all="raise"):
                        got = _call(mod, fn, xs, form)
                except FloatingPointError as ex:
                    # locate one offending point
                    bad = None
                    for x in xs:
                        try:
                            with np.errstate(all="raise"):
                                _call(mod, fn, [x], form)
                        except FloatingPointError:
                            bad = float(x)
                            break
                    ctx.violation("independent_of_numpy_error_state", {"kind": kind, key: bad if bad is not None else float(xs[-1]), "module": mname, "form": form, "batch": bad is None}, "the value returned under the default error state", f"FloatingPointError: {ex}")
                    continue
                for i in np.where(got.view(np.int64) != base.view(np.int64))[0][:3]:
                    ctx.violation("independent_of_numpy_error_state", {"kind": kind, key: float(xs[i]), "module": mname, "form": form}, base[i], got[i])
    # the caller's array belongs to the caller, and a batch is its elements: every ordered triple over one altitude per
    # layer (plus +inf) / one pressure per layer (plus 0) is converted as ONE array that is then re-used - the array must
    # be left bit for bit as it was, a second conversion of the same object must repeat the first, each lane must equal
    # the element converted alone, and a column view of a 2-d table must leave its parent untouched
    for r in _reuse_cases(mods, const, zb, Pb, ctx):
        ctx.violation(r[0], r[1], r[2], r[3])
    ctx.sample({"z": float(zb[1]), "P": float(A.us_std_atm_pressure_from_altitude(zb[1])), "what": "layer boundary 2"})
    k = int(ctx.rng.integers(len(z)))
    ctx.sample({"z": float(z[k]), "P": float(ref_P[k]), "z_back": float(ref_zr[k])})
    ctx.sample({"p": float(p[len(p) // 3]), "z": float(ref[0][len(p) // 3])})


def _layer_reps(zb, Pb):
    zb = np.asarray(zb, dtype=float)
    Pb = np.asarray(Pb, dtype=float)
    zr = sorted(set([0.0] + [float(b) for b in zb] + [float(0.5 * (a + b)) for a, b in zip(zb[:-1], zb[1:])] + [100.0, np.inf]))
    pr = sorted(set([0.0] + [float(b) for b in Pb] + [float(np.sqrt(a * b)) for a, b in zip(Pb[:-1], Pb[1:]) if a > 0 and b > 0] + [1e-3, 101325.0]))
    return zr, pr


def _reuse_one(mod, fn, vals):
    """one history on one array object: convert, convert again, compare with the elements alone; returns findings"""
    f = getattr(mod, fn)
    out = []
    a = np.array(vals, dtype=np.float64)
    keep = a.copy()
    r1 = np.array(f(a), dtype=np.float64, copy=True)
    if a.tobytes() != keep.tobytes():
        out.append(("inputs_unmodified", keep.tolist(), a.tolist()))
    r2 = np.array(f(a), dtype=np.float64, copy=True)
    if r1.tobytes() != r2.tobytes():
        out.append(("repeat_call_same_array", r1.tolist(), r2.tolist()))
    alone = np.array([np.asarray(f(np.array([v], dtype=np.float64)), dtype=np.float64).reshape(()) for v in vals], dtype=np.float64)
    if r1.tobytes() != alone.tobytes():
        out.append(("batch_is_its_elements", alone.tolist(), r1.tolist()))
    # a column of a table: the parent must be untouched and the column result that of a contiguous copy
    t = np.empty((len(vals), 2), dtype=np.float64)
    t[:, 0] = vals
    t[:, 1] = vals[::-1]
    tk = t.copy()
    rc = np.array(f(t[:, 0]), dtype=np.float64, copy=True)
    if t.tobytes() != tk.tobytes():
        out.append(("inputs_unmodified", tk[:, 0].tolist(), t[:, 0].tolist()))
    if rc.tobytes() != alone.tobytes():
        out.append(("batch_is_its_elements", alone.tolist(), rc.tolist()))
    # the aftermath of a refused call: arrays the functions cannot convert (objects, complex numbers, text) holding
    # OTHER layers' values, same shape; whether or not they are refused, the valid call that follows is unaffected
    for badvals in (vals[::-1], [vals[-1]] * len(vals), [vals[0]] * len(vals)):
        for mk in (lambda v: np.array(v, dtype=object), lambda v: np.array(v, dtype=np.complex128), lambda v: np.array([str(x) for x in v])):
            try:
                with np.errstate(all="ignore"):
                    f(mk(badvals))
            except Exception:
                pass
            aa = np.array(f(np.array(vals, dtype=np.float64)), dtype=np.float64, copy=True)
            if aa.tobytes() != alone.tobytes():
                out.append(("valid_call_unaffected_by_an_earlier_refused_call", alone.tolist(), aa.tolist()))
                break
        else:
            continue
        break
    # a read-only array is a legal input
    ro = np.array(vals, dtype=np.float64)
    ro.setflags(write=False)
    try:
        rr = np.array(f(ro), dtype=np.float64, copy=True)
        if rr.tobytes() != alone.tobytes():
            out.append(("batch_is_its_elements", alone.tolist(), rr.tolist()))
    except ValueError as ex:
        out.append(("inputs_unmodified", "a read-only array is converted", f"ValueError: {str(ex)[:80]}"))
    return out


def _reuse_cases(mods, const, zb, Pb, ctx):
    import itertools

    zr, pr = _layer_reps(zb, Pb)
    pr = [v for v in pr if v <= const.std_atm_ground_pressure]
    found = []
    for mname, mod in mods.items():
        for fn, reps, key in (("us_std_atm_pressure_from_altitude", zr, "z"), ("us_std_atm_altitude_from_pressure", pr, "p")):
            # one value per layer keeps the triples exhaustive over (layer, layer, layer); nodes themselves ride in pairs
            per_layer = reps[1::2] + [reps[0], reps[-1]]
            combos = list(itertools.product(per_layer, repeat=3)) + list(itertools.permutations(reps, 2)) + [tuple(reps), tuple(reps[::-1])] + [(v,) for v in reps]
            seen = set()
            for vals in combos:
                ctx.tick(1, ("reuse", mname, key, len(vals), min(len(set(vals)), 3)))
                for clause, exp, got in _reuse_one(mod, fn, list(vals)):
                    if (clause, mname, key) in seen:
                        continue
                    seen.add((clause, mname, key))
                    found.append((clause, {"kind": "reuse", "fn": fn, "vals": [float(v) for v in vals], "module": mname}, exp, got))
    return found


def _ends(mod, form):
    out = []
    P = _call(mod, "us_std_atm_pressure_from_altitude", [np.inf], form)[0]
    if not (P == 0.0):
        out.append(("ends", "P(+inf)=0", float(P)))
    zz = _call(mod, "us_std_atm_altitude_from_pressure", [0.0], form)[0]
    if not (zz == np.inf):
        out.append(("ends", "z(0)=+inf", float(zz)))
    return out


def replay(case):
    const = _consts()
    mods = _mods()
    out = []
    k = case["kind"]
    names = list(mods) if case.get("module") == "both" else [case["module"]]
    if k == "z":
        z = np.array([case["z"]])
        res = []
        for n in names:
            P = _call(mods[n], "us_std_atm_pressure_from_altitude", z, "1d")
            zr = _call(mods[n], "us_std_atm_altitude_from_pressure", P, "1d")
            res.append((P[0], zr[0]))
            if len(names) == 1:
                if not (abs(zr[0] - z[0]) <= ZTOL):
                    out.append(("rt_z", z[0], zr[0]))
                if not (P[0] > 0):
                    out.append(("positive", ">0", P[0]))
        if len(names) == 2 and (np.float64(res[0][0]).tobytes() != np.float64(res[1][0]).tobytes() or np.float64(res[0][1]).tobytes() != np.float64(res[1][1]).tobytes()):
            out.append(("modules_agree", res[0], res[1]))
    elif k == "zpair":
        zz = np.array([case["z0"], case["z1"]])
        P = _call(mods[names[0]], "us_std_atm_pressure_from_altitude", zz, "1d")
        rise = (P[1] - P[0]) / P[0]
        if not (rise <= RISE):
            out.append(("monotone", f"rise<={RISE}", rise))
    elif k == "p":
        p = np.array([case["p"]])
        res = []
        for n in names:
            zz = _call(mods[n], "us_std_atm_altitude_from_pressure", p, "1d")
            pr = _call(mods[n], "us_std_atm_pressure_from_altitude", zz, "1d")
            res.append((zz[0], pr[0]))
            if len(names) == 1 and not (abs(pr[0] - p[0]) <= PTOL * p[0]):
                out.append(("rt_p", p[0], pr[0]))
        if len(names) == 2 and (np.float64(res[0][0]).tobytes() != np.float64(res[1][0]).tobytes() or np.float64(res[0][1]).tobytes() != np.float64(res[1][1]).tobytes()):
            out.append(("modules_agree", res[0], res[1]))
    elif k == "ends":
        out += _ends(mods[names[0]], case["form"])
    elif k == "reuse":
        out += _reuse_one(mods[names[0]], case["fn"], list(case["vals"]))
    elif k in ("zerr", "perr"):
        fn = "us_std_atm_pressure_from_altitude" if k == "zerr" else "us_std_atm_altitude_from_pressure"
        x = case["z"] if k == "zerr" else case["p"]
        xs = [x] if not case.get("batch") else [1.0, x]
        a = _call(mods[names[0]], fn, xs, "1d")
        try:
            with np.errstate(all="raise"):
                b = _call(mods[names[0]], fn, xs, case["form"])
        except FloatingPointError as ex:
            return [("independent_of_numpy_error_state", "the value returned under the default error state", f"FloatingPointError: {ex}")]
        if a.tobytes() != b.tobytes():
            out.append(("independent_of_numpy_error_state", a.tolist(), b.tolist()))
    elif k in ("zdtype", "pdtype"):
        fn = "us_std_atm_pressure_from_altitude" if k == "zdtype" else "us_std_atm_altitude_from_pressure"
        x = [case["z"] if k == "zdtype" else case["p"]]
        a = _call(mods[names[0]], fn, x, "1d")[0]
        try:
            b = _call(mods[names[0]], fn, x, case["form"])[0]
        except Exception as ex:
            return [("input_form_no_exception", "values", f"{type(ex).__name__}: {str(ex)[:100]}")]
        if np.float64(a).tobytes() != np.float64(b).tobytes():
            out.append(("forms_agree", a, b))
    elif k == "zform":
        a = _call(mods[names[0]], "us_std_atm_pressure_from_altitude", [case["z"]], "1d")[0]
        b = _call(mods[names[0]], "us_std_atm_pressure_from_altitude", [case["z"]], case["form"])[0]
        if np.float64(a).tobytes() != np.float64(b).tobytes():
            out.append(("forms_agree", a, b))
    elif k == "pform":
        a = _call(mods[names[0]], "us_std_atm_altitude_from_pressure", [case["p"]], "1d")[0]
        b = _call(mods[names[0]], "us_std_atm_altitude_from_pressure", [case["p"]], case["form"])[0]
        if np.float64(a).tobytes() != np.float64(b).tobytes():
            out.append(("forms_agree", a, b))
    return out
