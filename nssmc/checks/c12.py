"""C12 — neutrino spectrum sampling is exact and normalised (E1 lattice explorer, RNG owned)."""

import itertools
import math

import numpy as np

from ..own import RngStub

PID = "C12"
LEVEL = "exploration"
RULE = (
    "full Cartesian product of alphabets: batch size N x spectral index (incl. exactly 1 and 1+-1e-6) x all ordered "
    "(lower, upper) pairs x underlying uniform numbers t fed through an RNG stub with numpy's own low+(high-low)*t "
    "arithmetic (edges 0, denormal, 2^-53, 1-2^-53 and an interior grid); mono energies separately. Distinct/non-trivial "
    "by (spectrum type, index class <1/=1/>1, bounds pair, which edge/interior class t falls in, N class)."
)
ASSUMPTIONS = [
    "the production sampler draws its uniforms through numpy's legacy global functions (uniform/rand/random); if a run "
    "draws none through them the inverse-CDF clause is skipped for that run and only RNG-agnostic clauses are judged",
    "reference CDF is an independent log-space formula (expm1 based) with its own index-1 branch",
]

LN10 = math.log(10.0)


def cdf_ref(x, p, lo, hi):
    """F(x) for dN/dE ~ E^-p on [10^lo, 10^hi], in log space."""
    mp = 1.0 - p
    if mp == 0.0:
        return (x - lo) / (hi - lo)
    return np.expm1(mp * LN10 * (x - lo)) / np.expm1(mp * LN10 * (hi - lo))


def f_tol(p, lo, hi):
    """tolerance in F-space: 1e-13 scaled by the cancellation in B - A, plus what a few ulps of the returned log-energy
    are worth in F (F' is large on a narrow band: 4 ulp(hi) * max F')"""
    mp = 1.0 - p
    ulp = float(np.spacing(hi))
    if mp == 0.0:
        return 1e-13 + 4 * ulp / (hi - lo)
    A = 10.0 ** (lo * mp)
    B = 10.0 ** (hi * mp)
    return 1e-13 * max(1.0, max(A, B) / abs(B - A)) + 4 * ulp * abs(mp) * LN10 * max(A, B) / abs(B - A)


def t_alphabet(tier):
    edges = [0.0, 5e-324, 1e-300, 2.0**-53, 1e-9, 1 - 1e-9, 1 - 2.0**-53, 1.0 / (1.0 + 2.0**-52), 1 - 2.0**-52]
    m = 16 if tier == "quick" else 64
    return np.array(edges + [k / m for k in range(1, m)])


def t_class(t):
    return np.where(t == 0, 0, np.where(t < 1e-8, 1, np.where(t > 1 - 1e-8, 3, 2)))


def make_config(spec):
    from nuspacesim.config import NssConfig, Simulation

    if spec["type"] == "mono":
        s = Simulation.MonoSpectrum(log_nu_energy=spec["logE"])
    else:
        s = Simulation.PowerSpectrum(index=spec["index"], lower_bound=spec["lo"], upper_bound=spec["hi"])
    return NssConfig(simulation=Simulation(spectrum=s))


def judge(spec, N, t):
    """Run Spectra(config)(N) with the stub feeding t; return list of (clause, expected, observed)."""
    from nuspacesim.simulation.spectra.spectra import Spectra

    out = []
    cfg = make_config(spec)
    stub = RngStub(feeds=[np.asarray(t, dtype=np.float64)])
    try:
        with stub.installed():
            res = Spectra(cfg)(N)
    except Exception as ex:
        return [("no_exception", "a sample", f"{type(ex).__name__}: {ex}")], None
    try:
        logE, norm, wsum = res
    except Exception:
        return [("returns_triple", "3-tuple", repr(res)[:80])], None
    logE = np.asarray(logE, dtype=np.float64)
    if logE.shape != (N,):
        out.append(("length", (N,), logE.shape))
        return out, logE
    prod = float(norm) * float(wsum)
    if not (abs(prod - 1.0) <= 4 * np.finfo(float).eps):
        out.append(("normalisation", 1.0, prod))
    if spec["type"] == "mono":
        if N and not np.all(logE == spec["logE"]):
            out.append(("mono_exact", spec["logE"], logE[logE != spec["logE"]][:3].tolist()))
        return out, logE
    lo, hi, p = spec["lo"], spec["hi"], spec["index"]
    if N:
        bad = ~((logE >= lo) & (logE <= hi))
        if bad.any():
            i = int(np.where(bad)[0][0])
            out.append(("bounds", [lo, hi], float(logE[i])))
        if len(stub.returned) > 1 and sum(int(np.size(r)) for r in stub.returned) == N:
            stub.returned[:] = [np.concatenate([np.ravel(r) for r in stub.returned])]  # (drawn in several pieces: same thing)
        if not (len(stub.returned) >= 1 and np.size(stub.returned[0]) == N):
            # a power-law sample is the inverse-CDF image of ITS uniform number: a sample made without drawing one per
            # event cannot be that (N identical energies, for instance)
            out.append(("one_uniform_number_per_event", f"one draw of {N} uniform numbers", [int(np.size(r)) for r in stub.returned]))
        else:
            uraw = np.asarray(stub.returned[0], dtype=np.float64).ravel()
            # the closed ends of the unit interval map to the bounds themselves (in exact arithmetic F^-1(0) = lower and
            # F^-1(1) = upper; for steep spectra the CDF is so flat at the top that a one-ulp change of u moves the
            # energy by most of a decade, so the F-space clause below cannot see a mis-handled end point)
            # ... conditioning-aware: a one-ulp change of u moves the energy by ulp / F'(bound); beyond a few of those the
            # end point is mis-handled.  (For steep, wide spectra F' at the top is so small that every energy in the
            # interval is within one ulp of u = 1: nothing can be demanded there in double precision.)
            mp_ = 1.0 - p
            for cond, bound, name in ((uraw >= 1.0, hi, "upper"), (uraw <= 0.0, lo, "lower")):
                if not cond.any():
                    continue
                if mp_ == 0.0:
                    slope = 1.0 / (hi - lo)
                else:
                    slope = abs(mp_ * LN10 * np.exp(mp_ * LN10 * (bound - lo)) / np.expm1(mp_ * LN10 * (hi - lo)))
                tol_x = 1e-9 + 8 * 2.0**-53 / max(slope, 1e-300)
                if not np.all(np.abs(logE[cond] - bound) <= tol_x):
                    out.append(("end_point_maps_to_bound", f"u at the {name} end -> {bound} (+-{tol_x:.3g})", float(logE[cond][0])))
            u = np.clip(uraw, 0.0, 1.0)
            F = cdf_ref(np.clip(logE, lo, hi), p, lo, hi)
            err = np.abs(F - u)
            tol = f_tol(p, lo, hi)
            badF = ~(err <= tol)
            if badF.any():
                i = int(np.where(badF)[0][0])
                out.append(("inverse_cdf", float(u[i]), float(F[i])))
    return out, logE


def run(ctx):
    from .. import pipeline

    # wiring: the run's stored columns are this stage applied to the run's stored columns (see nssmc/pipeline.py)
    pipeline.run_in(ctx, ['spectrum'], ('A', 'B', 'C'), plots=['spectra_histogram'])
    tier = ctx.tier
    Ns = [0, 1, 2, 3, 8192, 8193]
    idx = [0.0, 0.5, 1 - 1e-6, 1.0, 1 + 1e-6, 1.5, 2.0, 2.123456789, 2.5, 3.0, 4.0]
    if tier == "thorough":
        idx = sorted(set(idx + [k * 0.125 for k in range(0, 33)]))
    bnds = [6.0, 6.5, 8.0, 11.5, 12.0]
    pairs = [(a, b) for a, b in itertools.product(bnds, bnds) if a < b]
    # narrow but valid bands (6 <= lower < upper <= 12): the inverse CDF is as exact there as anywhere
    pairs += [(9.0, 9.00005), (10.0, 10.0001), (11.9999, 12.0), (6.0, 6.000001), (8.0, 8.001)]
    # bounds with many significant digits (nothing may work from a rounded copy of the parameters)
    pairs += [(6.123456789, 11.987654321), (7.0000004, 9.9999996)]
    ts = t_alphabet(tier)
    ctx.cov["alphabet"] = {"N": Ns, "index": len(idx), "bounds_pairs": len(pairs), "t": len(ts)}
    # mono
    for logE in [6.0, 8.0, 12.0, 9.25, 8.1, 6.0 + 1.0 / 3.0, 11.999999999999998, 9.123456789]:
        for N in Ns:
            spec = {"type": "mono", "logE": logE}
            v, _ = judge(spec, N, ts)
            ctx.tick(max(N, 1), ("mono", N if N < 4 else "big"))
            for c, e, o in v:
                ctx.violation(c, {"spec": spec, "N": N, "t": ts.tolist()}, e, o)
    ctx.sample({"spec": {"type": "mono", "logE": 8.0}, "N": 3})
    # power law: the whole t alphabet as one batch (N = len(ts)), then the N alphabet with cycled t
    for p in idx:
        for lo, hi in pairs:
            spec = {"type": "power", "index": p, "lo": lo, "hi": hi}
            N = len(ts)
            v, logE = judge(spec, N, ts)
            ctx.tick(N)
            pc = 0 if p < 1 else (1 if p == 1 else 2)
            for tc in np.unique(t_class(ts)):
                ctx.sigs.add(("pl", pc, lo, hi, int(tc)))
            for c, e, o in v:
                # minimise: find a single offending t
                case = {"spec": spec, "N": N, "t": ts.tolist()}
                for tv in ts:
                    v1, _ = judge(spec, 1, [tv])
                    if any(c1 == c for c1, _, _ in v1):
                        case = {"spec": spec, "N": 1, "t": [float(tv)]}
                        break
                ctx.violation(c, case, e, o)
    ctx.sample({"spec": {"type": "power", "index": 1.5, "lo": 6.0, "hi": 12.0}, "t": [float(ts[6])]})
    for p in [0.0, 1.0, 2.0, 3.0]:
        for lo, hi in [(6.0, 12.0), (8.0, 11.5)]:
            for N in Ns:
                spec = {"type": "power", "index": p, "lo": lo, "hi": hi}
                v, logE = judge(spec, N, ts)
                ctx.tick(max(N, 1), ("plN", p, lo, N))
                for c, e, o in v:
                    ctx.violation(c, {"spec": spec, "N": N, "t": ts.tolist()}, e, o)
    # one long-lived sampler: the configuration's spectrum object is replaced between calls (as the CLI overrides do)
    from nuspacesim.config import Simulation
    from nuspacesim.simulation.spectra.spectra import Spectra

    cfgh = make_config({"type": "mono", "logE": 8.0})
    sh = Spectra(cfgh)
    seq = [{"type": "mono", "logE": 8.0}, {"type": "mono", "logE": 9.3}, {"type": "power", "index": 2.0, "lo": 10.0, "hi": 12.0}, {"type": "mono", "logE": 6.5}, {"type": "power", "index": 1.0, "lo": 6.0, "hi": 7.0}]
    for si, spc in enumerate(seq):
        cfgh.simulation.spectrum = make_config(spc).simulation.spectrum
        stub = RngStub(feeds=[np.array([0.25, 0.5, 0.75])])
        with stub.installed():
            le, nrm, ws = sh(3)
        le = np.asarray(le, dtype=float)
        ctx.tick(3, ("spectrum_replaced", si))
        if spc["type"] == "mono":
            ok = bool(np.all(le == spc["logE"]))
        else:
            ok = bool(np.all((le >= spc["lo"]) & (le <= spc["hi"])) and np.all(np.abs(cdf_ref(le, spc["index"], spc["lo"], spc["hi"]) - np.array([0.25, 0.5, 0.75]) * (1 + np.finfo(float).eps)) <= 1e-12))
        if not ok:
            ctx.violation("follows_configured_spectrum", {"history": seq[: si + 1], "hist": True}, spc, le.tolist())
            break
    # the index given as a Python int (as a TOML file `index = 3` or a caller's literal does): the same spectrum
    for pi in (0, 1, 2, 3, 4):
        for lo, hi in ((6.0, 12.0), (7.0, 9.5)):
            spec = {"type": "power", "index": int(pi), "lo": lo, "hi": hi}
            v, _ = judge(spec, len(ts), ts)
            ctx.tick(len(ts), ("int_index", pi, lo))
            for c, e, o in v:
                ctx.violation(c, {"spec": spec, "N": len(ts), "t": ts.tolist()}, e, o)
    import itertools as _it

    nlive = 0
    for d in ((1, 2) if ctx.tier == "quick" else (1, 2, 3)):
        for sq in _it.product(range(len(SPEC_STEPS)), repeat=d):
            nlive += 1
            ctx.tick(5 * (d + 1), ("live_history",) + tuple(sq))
            for c, e, o in judge_live_history(sq):
                ctx.violation(c, {"live": list(sq)}, e, o)
    ctx.cov["live_configuration_histories"] = nlive
    # monotone in t along the alphabet (inverse CDF is non-decreasing)
    tsort = np.sort(ts)
    for p in idx:
        spec = {"type": "power", "index": p, "lo": 6.0, "hi": 12.0}
        v, logE = judge(spec, len(tsort), tsort)
        ctx.tick(len(tsort), ("mono_in_t", p))
        if logE is not None and logE.shape == tsort.shape and np.any(np.diff(logE) < 0):
            i = int(np.where(np.diff(logE) < 0)[0][0])
            ctx.violation("monotone_in_u", {"spec": spec, "N": 2, "t": [float(tsort[i]), float(tsort[i + 1])], "pair": True}, "non-decreasing", [float(logE[i]), float(logE[i + 1])])


SPEC_STEPS = [
    ("replace", {"type": "mono", "logE": 9.3}),
    ("replace", {"type": "power", "index": 2.0, "lo": 10.0, "hi": 12.0}),
    ("replace", {"type": "power", "index": 1.0, "lo": 6.0, "hi": 7.0}),
    ("set", "index", 1.0),
    ("set", "index", 3.5),
    ("set", "lo", 7.5),
    ("set", "hi", 9.0),
    ("set", "logE", 11.0),
    ("refused",),  # a power law on a band of zero width is configured, the call (refused, or whatever it does) is made, and the band is put back
]


def judge_live_history(seq):
    """ONE Spectra object on one live configuration; between calls the spectrum is replaced or one of ITS fields is set
    in place; every call must return exactly what a fresh sampler on a fresh configuration with the values in force
    returns (energies, normalisation, weight sum), for the same owned uniform numbers. Two passes: the expected values
    of every step are computed first, then the history runs with NO other production call in between (a module-level
    memo would be refreshed by an interleaved reference call)."""
    from nuspacesim.simulation.spectra.spectra import Spectra

    tt = np.array([0.0, 0.25, 0.5, 0.75, 1.0])

    def obs(s):
        with RngStub(feeds=[tt.copy()]).installed():
            le, nrm, ws = s(len(tt))
        r = np.asarray(le, dtype=float).tobytes(), float(nrm), float(ws)
        # (the energies returned are the caller's: they are overwritten before the next call)
        if isinstance(le, np.ndarray) and le.flags.writeable:
            le[...] = -1.0
        return r

    # pass 1: the configurations in force after every step, and what a fresh sampler returns for each
    cur = {"type": "power", "index": 2.2, "lo": 6.5, "hi": 11.5}
    states = [dict(cur)]
    applied = []
    for si in seq:
        op = SPEC_STEPS[si]
        if op[0] == "replace":
            cur = dict(op[1])
            applied.append(op)
        elif op[0] == "refused":
            applied.append(op if cur["type"] == "power" else None)
        else:
            _, k, v = op
            if (k == "logE") != (cur["type"] == "mono") or (k in ("lo", "hi") and not ({**cur, k: v}["lo"] < {**cur, k: v}["hi"])):
                applied.append(None)  # the field does not exist on the spectrum in force / would invert the bounds
            else:
                cur[k] = v
                applied.append(op)
        states.append(dict(cur))
    wants = [obs(Spectra(make_config(c))) for c in states]
    # pass 2: the live history, uninterrupted
    cfg = make_config(states[0])
    sp = Spectra(cfg)
    for step in range(len(seq) + 1):
        if step:
            op = applied[step - 1]
            if op is None:
                continue
            if op[0] == "replace":
                cfg.simulation.spectrum = make_config(dict(op[1])).simulation.spectrum
            elif op[0] == "refused":
                spx = cfg.simulation.spectrum
                hi0 = spx.upper_bound
                try:
                    spx.upper_bound = spx.lower_bound
                    obs(sp)
                except Exception:
                    pass
                finally:
                    spx.upper_bound = hi0
            else:
                _, k, v = op
                setattr(cfg.simulation.spectrum, {"index": "index", "lo": "lower_bound", "hi": "upper_bound", "logE": "log_nu_energy"}[k], v)
        try:
            got = obs(sp)
        except Exception as ex:
            return [("live_history_no_exception", f"after {[SPEC_STEPS[i][1:] for i in seq[:step]]}", f"{type(ex).__name__}: {str(ex)[:80]}")]
        if got != wants[step]:
            return [("follows_configured_spectrum", f"after {[SPEC_STEPS[i][1:] for i in seq[:step]]}: the result of a fresh sampler for {states[step]}", "differs" if got[0] != wants[step][0] else f"norm/weights {got[1:]} vs {wants[step][1:]}")]
    return []


def replay(case):
    if isinstance(case, dict) and case.get("kind") == "pipeline":
        from .. import pipeline

        return pipeline.replay(case)
    if case.get("live"):
        return judge_live_history(tuple(case["live"]))
    if case.get("hist"):
        from nuspacesim.simulation.spectra.spectra import Spectra

        cfgh = make_config(case["history"][0])
        sh = Spectra(cfgh)
        for spc in case["history"]:
            cfgh.simulation.spectrum = make_config(spc).simulation.spectrum
            with RngStub(feeds=[np.array([0.25, 0.5, 0.75])]).installed():
                le, nrm, ws = sh(3)
            le = np.asarray(le, dtype=float)
            if spc["type"] == "mono":
                ok = bool(np.all(le == spc["logE"]))
            else:
                ok = bool(np.all((le >= spc["lo"]) & (le <= spc["hi"])))
            if not ok:
                return [("follows_configured_spectrum", spc, le.tolist())]
        return []
    v, logE = judge(case["spec"], case["N"], case["t"])
    out = list(v)
    if case.get("pair") and logE is not None and len(logE) == 2 and logE[1] < logE[0]:
        out.append(("monotone_in_u", "non-decreasing", logE.tolist()))
    return out
