"""C17 — staged output is prefix-consistent at stage boundaries and after stage failure (E4 crash/fault enumeration)."""

import itertools
import os
import shutil
import tempfile
import warnings

import numpy as np

from .. import faults, own, par, sim  # noqa

PID = "C17"
LEVEL = "fault_enumeration"
RULE = (
    "for each configuration of the alphabet ({Diffuse,Target} x channel sets x spectra, plus zero-survivor runs): EVERY "
    "write boundary k = 0..K of the run as a real process death (os._exit in a forked child right after the k-th write), "
    "EVERY stage {geometry, spot, spectrum, taus, decay, optical EAS, optical integral, radio EAS, SNR, radio integral} "
    "as the site of one injected failure of each kind {Exception subclass, BaseException-only (interrupt)}, and write_stages in {True, False}; the file left on disk is compared with a "
    "reference model of 'stage -> columns and header keys it adds' written from the property text, and with the "
    "un-faulted final table. Two-run histories on ONE output file in one process: (stage that stops run A | none) x (stage that "
    "stops run B | none), B with another seed, judged against B's prefix; runs with a plot callable that rescales results in "
    "place and a failing later stage. Distinct by (configuration, crash boundary | faulted stage, write_stages)."
)
ASSUMPTIONS = [
    "a death in the middle of one Table.write (torn write) is outside the property (it speaks of stage boundaries and stage failures)",
    "the fault is injected at entry to the stage's callable; RNG, clock and scheduler are owned so the un-faulted run is reproducible",
]

FNAMES = ["stages.dat", "nss_stages_run42", "out.h5", "OUT.FITS", "result.csv", "with space.fits", "a.b.c"]
RESULT_KEYS = {"O": ["OMCINT", "OMCINTGO", "ONEVPASS", "OMCINTUN"], "R": ["RMCINT", "RMCINTGO", "RNEVPASS", "RMCINTUN"]}


def model(mode, optical, radio):
    """ordered prefixes: list of (stage_that_wrote, columns_so_far, result_keys_so_far); index = boundary number - 1"""
    cols = ["beta_rad", "theta_rad", "path_len"] + (["times"] if mode == "Target" else [])
    keys = []
    out = [("geometry", list(cols), [])]

    def add(stage, c=(), k=()):
        cols.extend(c)
        keys.extend(k)
        out.append((stage, list(cols), list(keys)))

    add("spot", ["init_lat", "init_lon"])
    add("spectrum", ["log_e_nu"])
    add("taus", ["tauBeta", "tauLorentz", "tauEnergy", "showerEnergy", "tauExitProb"])
    add("decay", ["altDec", "lenDec"])
    if optical:
        add("optical_eas", ["numPEs", "costhetaChEff"])
        if mode == "Target":
            add("optical_integral", ["tmcintopt"])
        for k in RESULT_KEYS["O"]:
            add("optical_integral", k=[k])
    if radio:
        add("radio_eas", ["EFields"])
        if mode == "Target":
            add("radio_integral", ["tmcintrad"])
        for k in RESULT_KEYS["R"]:
            add("radio_integral", k=[k])
    return out


def boundary_before_stage(mode, optical, radio, stage):
    """number of completed writes when `stage` is entered; None if the stage is not part of this run"""
    m = model(mode, optical, radio)
    order = ["geometry", "spot", "spectrum", "taus", "decay"] + (["optical_eas", "optical_integral"] if optical else []) + (["radio_eas", "snr", "radio_integral"] if radio else [])
    if stage not in order:
        return None
    if stage == "geometry":
        return 0
    if stage == "snr":
        stage_w = "radio_eas"
        return max(i + 1 for i, (s, _, _) in enumerate(m) if s == stage_w)
    first = min(i for i, (s, _, _) in enumerate(m) if s == stage)
    return first


def cfg_of(spec):
    return sim.make_config(mode=spec["mode"], spectrum=spec["spectrum"], optical=spec["optical"], radio=spec["radio"], n=spec["n"], cloud=spec.get("cloud", "none"), logE=spec.get("logE"), extra=spec.get("extra"))


def run_compute(spec, path, write_stages, crash_at=None, stage=None, fault_kind="error", depth="entry"):
    """returns ('ok', table) | ('raised', repr). crash_at: os._exit(9) right after that many writes."""
    cfg = cfg_of(spec)

    def on_boundary(k, table):
        if crash_at is not None and k == crash_at:
            os._exit(9)

    with warnings.catch_warnings():
        warnings.simplefilter("ignore")
        with faults.write_spy(on_boundary), faults.stage_fault(stage, fault_kind, depth):
            if crash_at == 0:
                os._exit(9)
            try:
                t = sim.run(cfg, seed=spec.get("seed", 11), output_file=path, write_stages=write_stages)
            except (faults.InjectedFault, faults.InjectedInterrupt) as ex:
                return "raised", repr(ex)
            except Exception as ex:
                if crash_at is not None:
                    raise
                return "raised_other", f"{type(ex).__name__}: {str(ex)[:120]}"
    return "ok", t


def col_bytes(col):
    from astropy.time import Time

    if isinstance(col, Time):
        return np.asarray(col.jd1, dtype="<f8").tobytes() + np.asarray(col.jd2, dtype="<f8").tobytes()
    a = np.asarray(col)
    a = a.astype(a.dtype.newbyteorder("="), copy=False)
    if a.ndim == 2 and a.shape[1] == 2 and a.dtype.kind == "f":
        return np.ascontiguousarray(a).tobytes()
    return np.ascontiguousarray(a).tobytes()


def time_pair_bytes(col):
    from astropy.time import Time

    if isinstance(col, Time):
        return np.stack([np.asarray(col.jd1, dtype="<f8"), np.asarray(col.jd2, dtype="<f8")], axis=1).tobytes()
    return None


def judge_file(path, spec, k, final):
    """file must be prefix k of the model and identical to the corresponding part of the final table"""
    from astropy.table import Table

    out = []
    m = model(spec["mode"], spec["optical"], spec["radio"])
    if k == 0:
        if os.path.exists(path):
            out.append(("nothing_written_before_first_stage", "no file", "file exists"))
        return out
    if not os.path.exists(path):
        return [("file_exists_after_boundary", f"prefix {k}", "no file")]
    try:
        with warnings.catch_warnings():
            warnings.simplefilter("ignore")
            r = Table.read(path, format="fits")
    except Exception as ex:
        return [("file_readable", f"prefix {k}", f"{type(ex).__name__}: {str(ex)[:100]}")]
    _, cols, keys = m[k - 1]
    if list(r.colnames) != cols:
        out.append(("columns_are_prefix", cols, list(r.colnames)))
    allres = RESULT_KEYS["O"] + RESULT_KEYS["R"]
    got_keys = [x for x in allres if x in r.meta]
    if sorted(got_keys) != sorted(keys):
        out.append(("header_keys_are_prefix", keys, got_keys))
    if final is not None:
        for c in r.colnames:
            if c not in final.colnames:
                out.append(("column_in_final_table", c, "not in final table"))
                continue
            fb = time_pair_bytes(final[c])
            a = col_bytes(r[c])
            b = fb if fb is not None else col_bytes(final[c])
            if a != b:
                out.append(("column_identical_to_final", c, "differs"))
        fmeta = {kk: (v[0] if isinstance(v, tuple) else v) for kk, v in final.meta.items()}
        for kk in got_keys:
            if kk in fmeta and not (r.meta[kk] == fmeta[kk] or (isinstance(fmeta[kk], float) and abs(r.meta[kk] - fmeta[kk]) <= 1e-12 * abs(fmeta[kk]))):
                out.append(("header_value_identical_to_final", f"{kk}={fmeta[kk]!r}", repr(r.meta[kk])))
        ncfg = sum(1 for kk in fmeta if kk.startswith("HIERARCH Config"))
        ncfg_r = sum(1 for kk in r.meta if kk.startswith("Config "))
        if ncfg != ncfg_r:
            out.append(("configuration_header_complete", ncfg, ncfg_r))
    return out


def cli_run(spec, tmp, flags, stage=None, fname="out.fits"):
    """`nuspacesim run <toml> -o <file> <flags>` in-process (click runner), nondeterminism owned; returns
    (exit_code, in-memory table compute() returned or None, path)"""
    import dask
    from click.testing import CliRunner

    import nuspacesim.apps.run as R
    from nuspacesim.config import create_toml

    toml = os.path.join(tmp, "c.toml")
    path = os.path.join(tmp, fname)
    create_toml(toml, cfg_of(spec))
    real = R.compute
    cap = {}

    def capture(*a, **k):
        t = real(*a, **k)
        cap["t"] = t.copy()
        return t

    R.compute = capture
    no_o = "NO-O" in flags  # pseudo-flag: leave -o out (the command then names the file itself, in the working directory)
    flags = [f for f in flags if f != "NO-O"]
    cwd0 = os.getcwd()
    try:
        if no_o:
            work = os.path.join(tmp, "cwd")
            os.makedirs(work, exist_ok=True)
            os.chdir(work)
            before = set(os.listdir(work))
        with warnings.catch_warnings():
            warnings.simplefilter("ignore")
            with own.frozen_clock(), own.null_progress(), dask.config.set(scheduler="synchronous"), faults.stage_fault(stage):
                np.random.seed(spec.get("seed", 11))
                res = CliRunner().invoke(R.run, [toml] + ([] if no_o else ["-o", path]) + list(flags))
        if no_o:
            new = sorted(set(os.listdir(work)) - before)
            path = os.path.join(work, new[0]) if len(new) == 1 else os.path.join(work, "<the file the command names>" if not new else "<several files: %s>" % new)
    finally:
        os.chdir(cwd0)
        R.compute = real
    return res.exit_code, cap.get("t"), path, res


def judge_cli(spec, flags, stage):
    """the command line: -w writes the prefixes (with or without -n), a failing stage leaves the last prefix and a
    non-zero exit, and without -w nothing but the final result file (none at all with -n) is written"""
    out = []
    tmp = tempfile.mkdtemp(prefix="nssmc_c17cli_")
    try:
        code, final, _, res = cli_run(spec, os.path.join(tmp, ""), ("-w",), None, "ref.fits")
        if code != 0 or final is None:
            return [("cli_unfaulted_run_completes", "exit 0", f"exit {code}: {str(res.exception)[:100]}")]
        K = len(model(spec["mode"], spec["optical"], spec["radio"])) if len(final) else 1
        out += [(c, f"reference run -w: {e}", o) for c, e, o in judge_file(os.path.join(tmp, "ref.fits"), spec, K, final)]
        os.remove(os.path.join(tmp, "ref.fits"))
        before = sorted(os.listdir(tmp))
        code, t, path, res = cli_run(spec, os.path.join(tmp, ""), flags, stage)
        w, n = "-w" in flags, "-n" in flags
        if stage is None:
            if code != 0:
                out.append(("cli_run_completes", f"exit 0 for flags {list(flags)}", f"exit {code}: {str(res.exception)[:100]}"))
            elif w or not n:
                out += [(c, f"flags {list(flags)}: {e}", o) for c, e, o in judge_file(path, spec, K, final)]
            else:
                after = sorted(x for x in os.listdir(tmp) if x != "cwd") + (sorted("cwd/" + x for x in os.listdir(os.path.join(tmp, "cwd"))) if os.path.isdir(os.path.join(tmp, "cwd")) else [])
                if os.path.exists(path) or before != after:
                    out.append(("nothing_written_when_disabled", f"flags {list(flags)}: no file", [x for x in after if x not in before]))
        else:
            kb = boundary_before_stage(spec["mode"], spec["optical"], spec["radio"], stage)
            if kb is None:
                return out
            if code == 0:
                out.append(("exception_propagates", f"non-zero exit when stage {stage} fails (flags {list(flags)})", "exit 0"))
            if w:
                out += [(c, f"flags {list(flags)}, stage {stage} fails: {e}", o) for c, e, o in judge_file(path, spec, kb, final)]
            elif os.path.exists(path) and not path.endswith(">"):
                out.append(("nothing_written_when_disabled", f"flags {list(flags)}, stage {stage} fails: no file", "file exists"))
    finally:
        shutil.rmtree(tmp, ignore_errors=True)
    return out


def job(a):
    """one (spec, case) job in its own scratch directory"""
    if a[1][0] == "cli":
        try:
            return judge_cli(a[0], tuple(a[1][1]), a[1][2]), {"K": 0, "rows": 1}
        except Exception as ex:
            import traceback

            from ..core import raised_in_production

            if raised_in_production(traceback.format_exc()):
                return [("cli_no_exception", "the command line handles the run", f"{type(ex).__name__}: {str(ex)[:120]}")], None
            raise
    spec, case = a
    tmp = tempfile.mkdtemp(prefix="nssmc_c17_")
    out = []
    try:
        path = os.path.join(tmp, spec.get("fname", "out.fits"))
        kind = case[0]
        if kind == "relative":
            # a RELATIVE output name after the process changed its working directory (the package was imported elsewhere):
            # the file the caller named is cwd/name
            name = f"nssmc_rel_{os.getpid()}.fits"
            cwd0 = os.getcwd()
            status, final = run_compute(spec, os.path.join(tmp, "final.fits"), True)
            K = len(model(spec["mode"], spec["optical"], spec["radio"])) if len(final) else 1
            work = os.path.join(tmp, "work")
            os.mkdir(work)
            os.chdir(work)
            try:
                st = case[1]
                status, r = run_compute(spec, name, True, stage=st)
                kb = K if st is None else boundary_before_stage(spec["mode"], spec["optical"], spec["radio"], st)
                out += [(c, f"relative output name, cwd changed after import: {e}", o) for c, e, o in judge_file(os.path.join(work, name), spec, kb, final)]
            finally:
                os.chdir(cwd0)
                stray = os.path.join(cwd0, name)
                if os.path.exists(stray):
                    os.remove(stray)
                    out.append(("file_written_where_the_caller_named_it", f"{work}/{name}", stray))
            return out, {"K": K, "rows": len(final)}
        if kind == "rerun":
            # two staged runs IN ONE PROCESS to the SAME output file: run A (this spec; stopped by a failure in stage
            # case[1], or complete) and then run B (another seed: other rows, other values; stopped in stage case[2], or
            # complete). What B leaves is B's prefix - nothing the writer remembers about A's writes may stand in for it.
            stA, stB = case[1], case[2]
            specB = dict(spec, seed=spec.get("seed", 11) + 1)
            status, finalB = run_compute(specB, os.path.join(tmp, "final.fits"), True)
            if status != "ok":
                return [("unfaulted_run_completes", "ok", finalB)], None
            K = len(model(spec["mode"], spec["optical"], spec["radio"])) if len(finalB) else 1
            kb = K if stB is None else boundary_before_stage(spec["mode"], spec["optical"], spec["radio"], stB)
            if kb is None or (stA is not None and boundary_before_stage(spec["mode"], spec["optical"], spec["radio"], stA) is None) or len(finalB) == 0:
                return [], {"K": K, "rows": len(finalB)}
            run_compute(spec, path, True, stage=stA)
            left = open(path, "rb").read() if os.path.exists(path) else None
            status, r = run_compute(specB, path, True, stage=stB)
            if stB is not None and status != "raised":
                out.append(("exception_propagates", f"injected error from stage {stB}", "compute() returned normally" if status == "ok" else r))
            if kb == 0:
                # B stopped before its first boundary: what A left (a file or none) is all there is, byte for byte
                now = open(path, "rb").read() if os.path.exists(path) else None
                if now != left:
                    out.append(("nothing_written_before_first_stage", f"the file run A (stopped in {stA}) left, untouched", "changed" if now is not None else "removed"))
            else:
                out += [(c, f"second run to the same file after a run stopped in {stA}: {e}", o) for c, e, o in judge_file(path, specB, kb, finalB)]
            return out, {"K": K, "rows": len(finalB)}
        status, final = run_compute(spec, os.path.join(tmp, "final.fits"), True)
        if status != "ok":
            return [("unfaulted_run_completes", "ok", final)], None
        K = len(model(spec["mode"], spec["optical"], spec["radio"])) if len(final) else 1
        info = {"K": K, "rows": len(final)}
        if not os.path.exists(os.path.join(tmp, "final.fits")):
            out.append(("file_exists_after_boundary", f"prefix {K} after an un-faulted staged run", "no file"))
        if kind == "plot_touches_results":
            # a user-supplied plot callable that rescales, in place, every array a stage hands it: what the table (and the
            # file at each boundary) holds was stored BEFORE the callable ran, so the file left when a later stage fails is
            # still the prefix of the table the same run returns when it is not interrupted
            def touch(args, values):
                for v in (values if isinstance(values, tuple) else (values,)):
                    if isinstance(v, np.ndarray) and v.dtype.kind == "f" and v.flags.writeable:
                        v *= 1.0 + 2.0**-20

            st = case[1]
            try:
                with warnings.catch_warnings():
                    warnings.simplefilter("ignore")
                    whole = sim.run(cfg_of(spec), seed=spec.get("seed", 11), output_file=os.path.join(tmp, "whole.fits"), write_stages=True, to_plot=[touch])
            except Exception as ex:
                return [("staged_run_completes", "compute(..., to_plot=[callable]) returns", f"{type(ex).__name__}: {str(ex)[:120]}")], info
            kb = boundary_before_stage(spec["mode"], spec["optical"], spec["radio"], st)
            if kb is None or len(whole) == 0:
                return [], info
            try:
                with warnings.catch_warnings():
                    warnings.simplefilter("ignore")
                    with faults.stage_fault(st, "error", "entry"):
                        sim.run(cfg_of(spec), seed=spec.get("seed", 11), output_file=path, write_stages=True, to_plot=[touch])
                out.append(("exception_propagates", f"injected error from stage {st}", "compute() returned normally"))
            except (faults.InjectedFault, faults.InjectedInterrupt):
                pass
            out += [(c, f"plot callable rescales results in place: {e}", o) for c, e, o in judge_file(path, spec, kb, whole)]
        elif kind == "boundaries":
            # the un-faulted run itself: the number of write boundaries equals the model's
            cnt = {"n": 0}
            try:
                with faults.write_spy(lambda k, t: cnt.__setitem__("n", k)):
                    sim.run(cfg_of(spec), seed=spec.get("seed", 11), output_file=path, write_stages=True)
            except Exception as ex:
                out.append(("staged_run_completes", f"compute(output_file={os.path.basename(path)!r}, write_stages=True) returns", f"{type(ex).__name__}: {str(ex)[:120]}"))
            if cnt["n"] != K:
                out.append(("number_of_write_boundaries", K, cnt["n"]))
            out += judge_file(path, spec, K, final)
        elif kind == "crash":
            k = case[1]
            if k > K:
                return [], info
            if case[2]:  # a stale file from an earlier, different run at the same path
                from astropy.table import Table

                Table({"stale_column": np.arange(198.0)}).write(path, format="fits", overwrite=True)
            code = faults.in_child(lambda: run_compute(spec, path, True, crash_at=k))
            if code != 9:
                out.append(("crash_injected", 9, code))
            elif case[2] and k == 0:
                pass  # died before the first write: the stale file is all there is
            else:
                out += judge_file(path, spec, k, final)
        elif kind == "stage":
            st = case[1]
            kb = boundary_before_stage(spec["mode"], spec["optical"], spec["radio"], st)
            if kb is None or (len(final) == 0 and st != "geometry"):
                return [], info
            fk = case[2] if len(case) > 2 else "error"
            status, r = run_compute(spec, path, True, stage=st, fault_kind=fk, depth=case[3] if len(case) > 3 else "entry")
            if status != "raised":
                out.append(("exception_propagates", f"injected {fk} from stage {st}", "compute() returned normally" if status == "ok" else r))
            out += judge_file(path, spec, kb, final)
        elif kind in ("nowrite", "nowrite_omitted"):
            # ("nowrite_omitted": the write_stages keyword left out of the call altogether -- disabled is its default)
            st = case[1]
            cwd = os.getcwd()
            os.chdir(tmp)
            opened = []
            hook_on = [True]

            def hook(ev, args):
                if hook_on[0] and ev == "open" and args and isinstance(args[1], str) and any(ch in args[1] for ch in "wax+"):
                    p = str(args[0])
                    if not p.startswith("/dev/") and "/proc/" not in p:
                        opened.append(p)

            import sys

            sys.addaudithook(hook)
            try:
                before = sorted(os.listdir(tmp))
                if st is None or boundary_before_stage(spec["mode"], spec["optical"], spec["radio"], st) is not None:
                    status, r = run_compute(spec, path, False if kind == "nowrite" else "omitted", stage=st, fault_kind=case[2] if len(case) > 2 else "error", depth=case[3] if len(case) > 3 else "entry")
                    if status == "raised_other":
                        out.append(("unstaged_run_completes", "compute() returns or raises the injected failure", r))
                after = sorted(os.listdir(tmp))
            finally:
                hook_on[0] = False
                os.chdir(cwd)
            if os.path.exists(path):
                out.append(("nothing_written_when_disabled", "no output file", "output file exists"))
            if before != after:
                out.append(("nothing_written_when_disabled", before, after))
            mine = [p for p in opened if p.startswith(tmp)]
            if mine:
                out.append(("nothing_written_when_disabled", "no file opened for writing", mine[:3]))
        return out, info
    finally:
        shutil.rmtree(tmp, ignore_errors=True)


def specs(tier):
    base = []
    combos = list(itertools.product(("Diffuse", "Target"), ((True, True), (True, False), (False, True)), ("mono", "power")))
    if tier == "quick":
        combos = [("Diffuse", (True, True), "mono"), ("Target", (True, True), "power"), ("Diffuse", (True, False), "power"), ("Target", (False, True), "mono")]
    for mode, (o, r), sp in combos:
        base.append(dict(mode=mode, optical=o, radio=r, spectrum=sp, n=150 if mode == "Target" else 60))
    # sensitive detectors at high energy: most events trigger in BOTH channels, so the per-event integrand columns of the
    # two channels are non-zero and differ from each other
    low = {"detector": {"optical": {"photo_electron_threshold": 1e-6}, "radio": {"snr_threshold": 1e-6}}}
    base.append(dict(mode="Target", optical=True, radio=True, spectrum="mono", n=150, logE=10.0, extra=low))
    if tier == "thorough":
        base.append(dict(mode="Diffuse", optical=True, radio=True, spectrum="mono", n=60, logE=10.0, extra=low))
    zero = [dict(mode="Diffuse", optical=True, radio=True, spectrum="mono", n=0), dict(mode="Target", optical=True, radio=True, spectrum="mono", n=10, seed=3)]
    return base, zero


def run(ctx):
    base, zero = specs(ctx.tier)
    jobs = []
    for sp in base:
        K = len(model(sp["mode"], sp["optical"], sp["radio"]))
        jobs.append((sp, ("boundaries",)))
        for k in range(0, K + 1):
            jobs.append((sp, ("crash", k, False)))
        for k in (0, 1, K // 2):
            jobs.append((sp, ("crash", k, True)))
        for st in faults.STAGES:
            for fk in faults.FAULT_CLASSES:
                jobs.append((sp, ("stage", st, fk)))
        jobs.append((sp, ("nowrite", None)))
        jobs.append((sp, ("nowrite_omitted", None)))
        jobs.append((sp, ("nowrite_omitted", "radio_eas" if sp["radio"] else "optical_eas", "error")))
        for st in faults.STAGES:
            for fk in faults.FAULT_CLASSES:
                jobs.append((sp, ("nowrite", st, fk)))
        # failures raised INSIDE the real, decorated stage callables (they pass through the store / plot decorators)
        for st in faults.INNER_STAGES:
            jobs.append((sp, ("stage", st, "error", "inner")))
            jobs.append((sp, ("nowrite", st, "error", "inner")))
    for sp in (base[0], base[1]):
        for st in ("taus", "decay", "optical_eas", "radio_eas", "radio_integral"):
            jobs.append((sp, ("plot_touches_results", st)))
    # two-run histories on one output file in one process: (stage that stops run A | none) x (stage that stops run B | none)
    for sp in (base[0], base[1]):
        sts = [None] + [st for st in faults.STAGES if boundary_before_stage(sp["mode"], sp["optical"], sp["radio"], st) is not None]
        for stA in sts:
            for stB in sts:
                jobs.append((sp, ("rerun", stA, stB)))
    # output file names: the format is FITS whatever the name says (no extension, foreign extensions, upper case)
    for fname in FNAMES:
        sp = dict(base[0], fname=fname)
        K = len(model(sp["mode"], sp["optical"], sp["radio"]))
        jobs.append((sp, ("boundaries",)))
        jobs.append((sp, ("crash", 1, False)))
        jobs.append((sp, ("crash", K // 2, False)))
        jobs.append((sp, ("stage", "radio_eas" if sp["radio"] else "optical_eas", "error")))
        jobs.append((sp, ("nowrite", None)))
    for sp in (base[0], base[1]):
        for st in (None, "optical_eas", "radio_eas"):
            jobs.append((sp, ("relative", st)))
    # the command line: every combination of -w / -n, un-faulted and with a failing optical / radio stage
    for sp in (base[0], base[1]):
        for flags in ((), ("-w",), ("-n",), ("-w", "-n")):
            for st in (None, "optical_eas", "radio_eas", "taus"):
                jobs.append((sp, ("cli", tuple(flags), st)))
        # the same without -o (the command names the file itself)
        for flags in (("NO-O",), ("NO-O", "-w"), ("NO-O", "-w", "-n"), ("NO-O", "-n")):
            for st in (None, "radio_eas"):
                jobs.append((sp, ("cli", tuple(flags), st)))
    for sp in zero:
        jobs.append((sp, ("boundaries",)))
        jobs.append((sp, ("crash", 0, False)))
        jobs.append((sp, ("crash", 1, False)))
        jobs.append((sp, ("crash", 1, True)))
        jobs.append((sp, ("stage", "geometry")))
        jobs.append((sp, ("nowrite", None)))
    res = par.pmap(job, jobs)
    ncrash = nstage = 0
    for (sp, case), (v, info) in zip(jobs, res):
        ctx.tick(1, (sp["mode"], sp["optical"], sp["radio"], sp["spectrum"], sp["n"] == 0 or (info or {}).get("rows") == 0, case, sp.get("fname")))
        if case[0] == "crash":
            ncrash += 1
        if case[0] == "stage":
            nstage += 1
        for c, e, o in v:
            ctx.violation(c, {"spec": sp, "case": list(case)}, e, o)
    ctx.cov["configurations"] = len(base) + len(zero)
    ctx.cov["crash_points"] = ncrash
    ctx.cov["stage_faults"] = nstage
    ctx.cov["boundaries_per_configuration"] = {f"{sp['mode']}/{'O' if sp['optical'] else ''}{'R' if sp['radio'] else ''}": len(model(sp["mode"], sp["optical"], sp["radio"])) for sp in base}
    ctx.sample({"spec": base[0], "case": ["crash", 7, False], "expected_file": "prefix 7: columns up to numPEs/costhetaChEff, header keys OMCINT"})
    ctx.sample({"spec": base[1], "case": ["stage", "radio_eas"]})


def replay(case):
    v, _ = job((case["spec"], tuple(case["case"])))
    return v
