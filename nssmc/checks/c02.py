"""C02 — thrown trajectories are consistent 3-D objects for every random input (E1 lattice, closed cube)."""

import itertools
import math

import numpy as np

from .. import sim
from ..ref import geom_ref as G

PID = "C02"
LEVEL = "exploration"
RULE = (
    "full Cartesian product: per u-dimension an alphabet of the closed unit interval {0, 5e-324, 1e-300, 2^-53, 1e-9, "
    "interior grid, 1-1e-9, 1-2^-53, 1} (all faces, edges and corners of [0,1]^4) x detector altitude x detector "
    "(lat, long) incl. poles and the date line x (limb, cone, azimuth) settings x along-trajectory distances s; every "
    "point goes through RegionGeom.throw / find_lat_long_along_traj and is compared with an explicit-vector model. "
    "Distinct by (configuration, which u components are on a face, kept/not kept, clause)."
)
ASSUMPTIONS = [
    "Earth radius 6378.1 km (astropy nominal) and a spherical Earth, as documented",
    "azimuth convention of the trajectory about the line of sight: phi=0 tilts away from the local vertical (the documented emergence formula)",
    "either-side band of 1e-9 (cosine) / 1e-7 deg at the two cuts of the validity mask; between lattice points nothing is claimed",
    "the random numbers may arrive as bool, integer, single or double precision arrays of either byte order (judged on the values those arrays hold); half precision is outside: the tree forms 2*pi*u etc. in the caller's precision, so for float16 corners the spot is consistent to ~4e-7 only, which is below the precision of the numbers handed in and not claimed as a defect",
]

S_ALPHABET = [0.0, 1e-6, 1.0, 10.0, 100.0, 1000.0]


def u_alphabet(m):
    edge = [0.0, 5e-324, 1e-300, 2.0**-53, 1e-9, 1 - 1e-9, 1 - 2.0**-53, 1.0]
    k = m - len(edge)
    inner = [(i + 0.5) / k for i in range(k)] if k > 0 else []
    return np.array(sorted(edge + inner))


def geom_cfg(alt, lat, lon, limb_deg=7.0, cone_deg=3.0, az_deg=360.0):
    return dict(alt=alt, lat=lat, lon=lon, limb=math.radians(limb_deg), cone=math.radians(cone_deg), az=math.radians(az_deg))


def make_geom(gc):
    from nuspacesim.simulation.geometry.region_geometry import RegionGeom

    cfg = sim.make_config(altitude=gc["alt"], det_lat=gc["lat"], det_long=gc["lon"], extra={"simulation": {"angle_from_limb": gc["limb"], "max_cherenkov_angle": gc["cone"], "max_azimuth_angle": gc["az"]}})
    return RegionGeom(cfg)


def judge(gc, u, s_list=S_ALPHABET, g=None, form=None):
    """u: array (4, N). returns (violations [(clause, idx, expected, observed, s)], info dict). g: an existing geometry
    object to throw on (history clause); a fresh one otherwise. form: dtype of the array handed to throw() -- the numbers
    are first rounded to that dtype, so the reference sees exactly the values the code is given."""
    u = np.asarray(u, dtype=np.float64)
    u_pass = u
    if form is not None:
        u_pass = u.astype(form)
        u = u_pass.astype(np.float64)
    u_in = u_pass.copy()
    if g is None:
        g = make_geom(gc)
    out = []
    try:
        with np.errstate(all="ignore"):
            g.throw(u_pass)
    except Exception as ex:
        return [("throw_no_exception", 0, "a thrown batch", f"{type(ex).__name__}: {str(ex)[:100]}", None)], dict(L=np.zeros(u.shape[1]), mask=np.zeros(u.shape[1], bool), beta=np.zeros(u.shape[1]), lat=np.zeros(u.shape[1]), lon=np.zeros(u.shape[1]), rowfin=np.zeros(u.shape[1], bool))
    N = u.shape[1]
    L = np.asarray(g.losPathLen, dtype=np.float64)
    Lmin, Lmax, aH = G.limits(gc["alt"], gc["limb"])
    # both limits are re-derived from the triangle; L_min is ill-conditioned near the limb (difference of two nearly
    # equal lengths), so the reference's own rounding is covered by a 1e-10 relative band
    tol = 1e-10 * Lmax
    bad = ~((L >= Lmin - tol) & (L <= Lmax + tol))
    for i in np.where(bad)[0]:
        out.append(("path_length_in_range", i, [Lmin, Lmax], L[i], None))
    okL = ~bad
    res = np.full(N, np.nan)
    res[okL] = G.cdf_residual(gc["alt"], gc["limb"], L[okL], u[3][okL])
    for i in np.where(okL & ~(np.abs(res) <= 1e-9))[0]:
        out.append(("inverse_cdf", i, "residual<=1e-9", res[i], None))
    lat = np.asarray(g.latS, dtype=np.float64)
    lon = np.asarray(g.longS, dtype=np.float64)
    bad = okL & ~((lat >= -90) & (lat <= 90) & (lon >= 0) & (lon <= 360))
    for i in np.where(bad)[0]:
        out.append(("lat_long_range", i, "lat in [-90,90], long in [0,360]", [lat[i], lon[i]], None))
    fin = okL & np.isfinite(lat) & np.isfinite(lon)
    D, P, n = G.vectors(gc["alt"], gc["lat"], gc["lon"], np.where(fin, lat, 0.0), np.where(fin, lon, 0.0))
    dist = np.linalg.norm(P - D, axis=-1)
    # conditioning: a spot position reported through an Earth-central angle carries an absolute error of about
    # eps*R/sin(theta_S) (5e-9 km for a 100 m high detector); the reference inherits it through the reported spot
    c_ = G.R + gc["alt"]
    with np.errstate(all="ignore"):
        cosS = np.clip((c_ * c_ + G.R**2 - L * L) / (2 * G.R * c_), -1, 1)
        sinS = np.sqrt(np.maximum(1 - cosS**2, 0))
    e_pos = 1e-12 + 16 * np.finfo(float).eps * G.R / np.maximum(sinS, 1e-8)
    bad = fin & ~(np.abs(dist - L) <= 1e-9 * L + e_pos)
    for i in np.where(bad)[0]:
        out.append(("spot_at_distance", i, L[i], dist[i], None))
    theta = np.asarray(g.thetaTrSubV, dtype=np.float64)
    phi = np.asarray(g.phiTrSubV, dtype=np.float64)
    with np.errstate(all="ignore"):
        d, V, Lv, cnv = G.trajectory(D, P, n, theta, phi)
        beta_ref, ct_ref = G.emergence(d, n)
    beta = np.asarray(g.betaTrSubN, dtype=np.float64)
    ct = np.asarray(g.costhetaTrSubN, dtype=np.float64)
    vfin = fin & np.isfinite(beta_ref)
    with np.errstate(all="ignore"):
        sn = np.sqrt(np.maximum(1 - ct_ref**2, 0))
        ctol = 1e-10 + 2 * e_pos / np.maximum(L, 1e-300)
        btol = 1e-9 + np.degrees(ctol / np.maximum(sn, 1e-6))
    bad = vfin & ~(np.abs(ct - ct_ref) <= ctol)
    for i in np.where(bad)[0]:
        out.append(("emergence_cosine", i, ct_ref[i], ct[i], None))
    bad = vfin & ~(np.abs(beta - beta_ref) <= btol)
    for i in np.where(bad)[0]:
        out.append(("emergence_angle", i, beta_ref[i], beta[i], None))
    mask = np.asarray(g.event_mask, dtype=bool)
    exp = vfin & (ct_ref >= 0) & (beta_ref < 42)
    band = vfin & ((np.abs(ct_ref) < 1e-9 + ctol) | (np.abs(beta_ref - 42) < 1e-7 + btol))
    bad = (mask != exp) & ~band
    for i in np.where(bad)[0]:
        out.append(("event_kept_iff_valid", i, bool(exp[i]), bool(mask[i]), None))
    # the same decision on the angle and cosine the object itself reports (no tolerance band: the cut at 42 deg is strict)
    with np.errstate(all="ignore"):
        exp_rep = (ct >= 0) & (beta < 42)
    for i in np.where(np.isfinite(beta) & np.isfinite(ct) & (mask != exp_rep))[0]:
        out.append(("event_kept_iff_reported_angle_valid", i, f"{bool(exp_rep[i])} (reported angle {beta[i]!r} deg, cosine {ct[i]!r})", bool(mask[i]), None))
    rowfin = np.isfinite(L) & np.isfinite(lat) & np.isfinite(lon) & np.isfinite(beta)
    for i in np.where(mask & ~rowfin)[0]:
        out.append(("nonfinite_never_kept", i, False, True, None))
    if u_pass.tobytes() != u_in.tobytes():
        out.append(("inputs_unmodified", 0, "unchanged", "changed", None))
    # along the trajectory
    kept = np.where(mask)[0]
    if len(kept):
        Pk = n[kept]
        bk = np.radians(beta[kept])
        for s in s_list:
            try:
                with np.errstate(all="ignore"):
                    la, lo = g.find_lat_long_along_traj(np.full(len(kept), float(s)))
            except Exception as ex:
                out.append(("along_traj_no_exception", int(kept[0]), "positions", f"{type(ex).__name__}: {str(ex)[:100]}", float(s)))
                continue
            la = np.asarray(la, dtype=np.float64)
            lo = np.asarray(lo, dtype=np.float64)
            q = G.unit_from_latlong(la, lo)
            ang = G.central_angle(Pk, q)
            exp_ang = np.arctan2(s * np.cos(bk), G.R + s * np.sin(bk))
            bad = ~(np.abs(ang - exp_ang) <= 1e-9)
            for j in np.where(bad)[0]:
                out.append(("along_traj_offset" if s > 0 else "along_traj_zero_is_spot", kept[j], exp_ang[j], ang[j], float(s)))
    info = dict(L=L, mask=mask, beta=beta, lat=lat, lon=lon, rowfin=rowfin)
    return out, info


def threshold_points(gc, target, k=6):
    """u points whose emergence angle sits just below / just above `target` degrees (the cuts at 42 and 0): for a
    (u2, u4) lattice bisect on u1 using the production map itself, then step off the crossing by several deltas."""
    g = make_geom(gc)
    u2 = (np.arange(k) + 0.5) / k
    u4 = (np.arange(k) + 0.5) / k
    U2, U4 = [a.ravel() for a in np.meshgrid(u2, u4, indexing="ij")]
    n = len(U2)

    def beta(u1):
        with np.errstate(all="ignore"):
            g.throw(np.stack([u1, U2, np.full(n, 0.5), U4]))
        return np.asarray(g.betaTrSubN) - target

    lo, hi = np.full(n, 1e-12), np.full(n, 1.0)
    flo, fhi = beta(lo), beta(hi)
    ok = np.isfinite(flo) & np.isfinite(fhi) & (flo * fhi < 0)
    for _ in range(60):
        mid = 0.5 * (lo + hi)
        fm = beta(mid)
        left = (flo * fm) <= 0
        hi = np.where(left, mid, hi)
        fhi = np.where(left, fm, fhi)
        lo = np.where(left, lo, mid)
        flo = np.where(left, flo, fm)
    pts = []
    for d in (0.0, 1e-12, 1e-9, 1e-6, 1e-4, 1e-2):
        for sgn in (-1, 1):
            u1 = np.clip(0.5 * (lo + hi) + sgn * d, 0, 1)
            pts.append(np.stack([u1, U2, np.full(n, 0.5), U4])[:, ok])
    # ... and ON it: the neighbouring doubles of the crossing, those whose REPORTED angle is bit-exactly the target
    # (a strict cut keeps none of them)
    mid = 0.5 * (lo + hi)
    up, dn = mid.copy(), mid.copy()
    for _ in range(48):
        for arr in (up, dn):
            with np.errstate(all="ignore"):
                on = ok & (beta(arr) == 0.0)
            if on.any():
                pts.append(np.stack([arr, U2, np.full(n, 0.5), U4])[:, on])
        up = np.nextafter(up, 2.0)
        dn = np.nextafter(dn, -1.0)
    return np.concatenate(pts, axis=1) if pts else np.zeros((4, 0))


def _read_all(g, mutate=False):
    """everything a caller can read from a thrown geometry, as bytes (and, if asked, every returned array overwritten in
    place afterwards: what the accessors hand out is the caller's)"""
    with np.errstate(all="ignore"):
        parts = [("event_mask", g.event_mask), ("betas", g.betas()), ("thetas", g.thetas()), ("pathLens", g.pathLens())]
        for name in ("phis", "valid_elevAngVSubN", "valid_aziAngVSubN", "valid_latS_rad", "valid_longS_rad", "valid_costhetaTrSubN", "valid_costhetaNSubV", "valid_costhetaTrSubV"):
            if hasattr(g, name):
                parts.append((name, getattr(g, name)()))
        for sv in (0.0, 10.0):
            la, lo = g.find_lat_long_along_traj(np.full(int(np.sum(g.event_mask)), sv))
            parts += [(f"lat_along({sv})", la), (f"long_along({sv})", lo)]
        n = int(np.sum(g.event_mask))
        mc = g.mcintegral(np.full(n, np.inf), np.cos(g.config.simulation.max_cherenkov_angle) * (1 - 1e-15), np.ones(n), 0.0, 1.0, 1.0)
        parts.append(("mcintegral", np.array([float(mc[0]), float(mc[1]), float(mc[2])])))
    out = [(k, np.asarray(v).tobytes()) for k, v in parts]
    if mutate:
        for k, v in parts:
            if k != "event_mask" and isinstance(v, np.ndarray) and v.flags.writeable:
                v[...] = -7.25
    return out


def judge_refused_and_reread(gc, n):
    """a valid throw of n events; then (i) throws that are REFUSED (wrong shapes, same and other second dimension) and
    (ii) every returned array overwritten by the caller; after each, everything read again from the still-current throw
    is bit for bit what it was"""
    pool = np.array([[(i * p % 97 + 0.5) / 97.0 for i in range(1, n + 1)] for p in (37, 53, 11, 71)])
    g = make_geom(gc)
    with np.errstate(all="ignore"):
        g.throw(pool.copy())
    first = _read_all(g)
    out = []
    bads = [np.zeros((3, n)), np.full((3, 2 * n), 0.5), np.full((n, 4), 0.5) if n != 4 else np.full((7, 4), 0.5), np.full((5, n + 1), 0.5)]
    for bad in bads:
        try:
            with np.errstate(all="ignore"):
                g.throw(bad)
                g.throw(pool.copy())  # (accepted: not a refused call; nothing to say here - back to the reference throw)
            first = _read_all(g)
            continue
        except Exception:
            pass
        try:
            again = _read_all(g)
        except Exception as ex:
            out.append(("current_throw_readable_after_refused_throw", f"throw{bad.shape} refused; accessors still work", f"{type(ex).__name__}: {str(ex)[:80]}"))
            return out
        diff = [k for (k, a), (_, b) in zip(first, again) if a != b]
        if diff:
            out.append(("current_throw_unchanged_by_refused_throw", f"after a refused throw{bad.shape}: every accessor as before", diff[:4]))
            return out
    _read_all(g, mutate=True)
    again = _read_all(g)
    diff = [k for (k, a), (_, b) in zip(first, again) if a != b]
    if diff:
        out.append(("returned_arrays_belong_to_the_caller", "after the caller overwrote every returned array: every accessor as before", diff[:4]))
    return out


def run(ctx):
    from .. import pipeline

    # wiring: the run's stored columns are this stage applied to the run's stored columns (see nssmc/pipeline.py)
    pipeline.run_in(ctx, ['geometry'], ('A', 'C'), plots=['geom_beta_tr_hist'])
    tier = ctx.tier
    m = 10 if tier == "quick" else 16
    ua = u_alphabet(m)
    U = np.array(list(itertools.product(ua, repeat=4))).T  # (4, m^4)
    alts = [0.1, 1.0, 5.0, 33.0, 525.0, 36000.0]
    lats = [0.0, 0.2, -0.2, math.pi / 4, -math.pi / 4, math.pi / 2 - 1e-9, -(math.pi / 2 - 1e-9), math.pi / 2, -math.pi / 2]
    lons = [0.0, 0.3, math.pi - 1e-12, math.pi, -math.pi, 2 * math.pi - 1e-12]
    pos_all = list(itertools.product(lats, lons))
    if tier == "quick":
        pos = [(0.0, 0.0), (0.2, 0.3), (-math.pi / 4, math.pi), (math.pi / 2, 0.3), (-(math.pi / 2 - 1e-9), 2 * math.pi - 1e-12)]
    else:
        pos = pos_all
    settings = [(7.0, 3.0, 360.0)]
    cfgs = [geom_cfg(a, la, lo, *st) for a in alts for (la, lo) in pos for st in settings]
    # other (limb, cone, azimuth) settings at two altitudes
    for a in (33.0, 525.0):
        for st in [(0.5, 30.0, 90.0), (2.0, 60.0, 1.0)]:
            cfgs.append(geom_cfg(a, 0.2, 0.3, *st))
    ctx.cov["alphabet"] = {"u_values_per_dimension": int(m), "points_per_configuration": int(U.shape[1]), "configurations": len(cfgs), "s": S_ALPHABET}
    face = ((U == 0) | (U == 1)).astype(int)
    s_list = S_ALPHABET if tier == "thorough" else [0.0, 1e-6, 10.0, 1000.0]
    # the same numbers handed in as integer (the 16 corners of the cube, as itertools.product(range(2)) builds them),
    # single-precision and byte-swapped arrays
    corners = np.array(list(itertools.product([0, 1], repeat=4))).T
    m32 = u_alphabet(6)
    U32 = np.array(list(itertools.product(m32, repeat=4))).T
    for gc in (geom_cfg(525.0, 0.2, 0.3), geom_cfg(33.0, -math.pi / 4, math.pi), geom_cfg(2000.0, 0.0, 0.0, 20.0, 10.0, 360.0)):
        for form, Uf in (("i8", corners), ("i4", corners), ("u1", corners), ("?", corners), ("f4", U32), (">f8", U32), (">f4", U32)):
            v, info = judge(gc, Uf, [0.0, 10.0], form=form)
            ctx.tick(Uf.shape[1] * 3, ("form", form, gc["alt"]))
            per = {}
            for c, i, e, o, sv in v:
                if per.get(c, 0) >= 3:
                    continue
                per[c] = per.get(c, 0) + 1
                ctx.violation(c, {"gc": gc, "u": np.asarray(Uf, dtype=float).astype(form).astype(float)[:, i].tolist(), "s": sv, "alt": gc["alt"], "form": form}, e, o)
    # batch sizes 1..9 from a pool of fixed, all-distinct points (an event's result does not depend on how many events
    # are thrown with it; a 4 x 4 array is a batch of four events like any other)
    pool = np.array([[(i * p % 97 + 0.5) / 97.0 for i in range(1, 10)] for p in (37, 53, 11, 71)])
    for gc in (geom_cfg(525.0, 0.2, 0.3), geom_cfg(33.0, -math.pi / 4, math.pi)):
        for n in range(1, 10):
            v, info = judge(gc, pool[:, :n], [0.0, 10.0])
            ctx.tick(3 * n, ("batch_size", n, gc["alt"]))
            for c, i, e, o, sv in v[:3]:
                ctx.violation(c, {"kind": "batch", "gc": gc, "n": n, "alt": gc["alt"]}, e, o)
    # the cube's faces over a dense ladder of detector altitudes: whether the closed-form inversion's intermediate
    # (an arccos argument, a cube root) rounds just outside its domain at u4 = 0 or 1 depends on the altitude, and the few
    # altitudes of the main lattice need not be among those where it does
    Uface = np.array(list(itertools.product([0.0, 0.5, 1.0], [0.0, 0.37, 1.0], [0.0, 0.5, 1.0], [0.0, 5e-324, 0.5, 1.0 - 2.0**-53, 1.0]))).T
    ladder = np.unique(np.concatenate([np.arange(1.0, 60.0, 1.0), np.arange(60.0, 1000.0, 20.0), [0.1, 0.5, 1000.0, 2000.0, 5000.0, 36000.0]]))
    for a in ladder:
        gc = geom_cfg(float(a), 0.2, 0.3)
        v, info = judge(gc, Uface, [0.0, 10.0])
        ctx.tick(Uface.shape[1] * 3, ("face_ladder", int(math.log10(a) * 4)))
        per = {}
        for c, i, e, o, sv in v:
            if per.get(c, 0) >= 2:
                continue
            per[c] = per.get(c, 0) + 1
            ctx.violation(c, {"gc": gc, "u": Uface[:, i].tolist(), "s": sv, "alt": gc["alt"], "u4": float(Uface[3, i]), "s_pos": bool(sv and sv > 0)}, e, o)
    for gc in (geom_cfg(525.0, 0.2, 0.3), geom_cfg(33.0, -math.pi / 4, math.pi), geom_cfg(525.0, 0.2, 0.3, 30.0, 10.0, 360.0)):
        for n in (1, 4, 9, 40):
            ctx.tick(6 * n, ("refused_and_reread", n, gc["alt"]))
            for c, e, o in judge_refused_and_reread(gc, n):
                ctx.violation(c, {"kind": "reread", "gc": gc, "n": n, "alt": gc["alt"]}, e, o)
    for ci, gc in enumerate(cfgs):
        v, info = judge(gc, U, s_list)
        ctx.tick(U.shape[1] * (1 + len(s_list)))
        ctx.add_sig_rows(("cfg", ci), face[0], face[1], face[2], face[3], info["mask"])
        per = {}
        for c, i, e, o, s in v:
            if per.get(c, 0) >= 12:
                continue
            per[c] = per.get(c, 0) + 1
            u4 = float(U[3, i])
            ctx.violation(c, {"gc": gc, "u": U[:, i].tolist(), "s": s, "alt": gc["alt"], "u4": u4, "s_pos": bool(s and s > 0)}, e, o)
        if ci == 18:
            k = int(ctx.rng.integers(U.shape[1]))
            ctx.sample({"config": gc, "u": U[:, k].tolist(), "L_km": info["L"][k], "lat_deg": info["lat"][k], "long_deg": info["lon"][k], "beta_deg": info["beta"][k], "kept": bool(info["mask"][k])})
    ctx.sample({"config": cfgs[3], "u": [0.5, 0.25, 0.0, 0.0], "note": "face u3=u4=0"})
    # points placed on the two thresholds of the validity mask (beta = 42 deg and beta = 0)
    nthr = 0
    for gc in [geom_cfg(525.0, 0.2, 0.3, 7.0, 30.0, 360.0), geom_cfg(33.0, -0.2, 0.3, 2.0, 60.0, 90.0), geom_cfg(525.0, 0.0, 0.0, 20.0, 45.0, 360.0), geom_cfg(36000.0, 0.2, 0.3, 5.0, 30.0, 360.0)]:
        for target in (42.0, 0.0):
            Ut = threshold_points(gc, target)
            if Ut.shape[1] == 0:
                continue
            v, info = judge(gc, Ut, [0.0, 10.0])
            nthr += Ut.shape[1]
            ctx.tick(Ut.shape[1] * 3)
            near = np.abs(info["beta"] - target) < 0.5
            ctx.add_sig_rows(("thr", target, gc["alt"]), info["mask"], near, info["beta"] > target)
            per = {}
            for c, i, e, o, s in v:
                if per.get(c, 0) >= 12:
                    continue
                per[c] = per.get(c, 0) + 1
                ctx.violation(c, {"gc": gc, "u": Ut[:, i].tolist(), "s": s, "alt": gc["alt"], "u4": float(Ut[3, i]), "s_pos": bool(s and s > 0)}, e, o)
    ctx.cov["threshold_points"] = nthr
    # histories: ONE geometry object thrown several times (different u, different batch sizes, equal batch sizes with
    # different kept sets), every clause re-judged after each throw, accessors used in between
    a6 = (np.arange(6) + 0.5) / 6
    Ua = np.array(list(itertools.product(a6, repeat=4))).T
    Ub = Ua[::-1].copy()
    Uc = Ua[:, ::-1].copy()
    Ud = Ua[:, :500].copy()
    nh = 0
    for gc in [geom_cfg(525.0, 0.2, 0.3, 7.0, 30.0, 360.0), geom_cfg(33.0, -0.2, 3.0, 2.0, 60.0, 90.0)]:
        for seq in ([Ua, Ub, Ua], [Ud, Ua, Uc], [Uc, Ud, Ud]):
            g = make_geom(gc)
            for step, Ux in enumerate(seq):
                v, info = judge(gc, Ux, [0.0, 10.0], g=g)
                nh += 1
                ctx.tick(Ux.shape[1] * 3, ("history", gc["alt"], step))
                per = {}
                for c, i, e, o, s in v:
                    if per.get(c, 0) >= 4:
                        continue
                    per[c] = per.get(c, 0) + 1
                    ctx.violation(c, {"kind": "history", "gc": gc, "seq": [int(x.shape[1]) for x in seq], "u": Ux[:, i].tolist(), "s": s, "alt": gc["alt"], "u4": float(Ux[3, i]), "s_pos": bool(s and s > 0)}, e, o,
                                  alt_case={"kind": "history_full", "gc": gc, "which": [["Ua", "Ub", "Ua"], ["Ud", "Ua", "Uc"], ["Uc", "Ud", "Ud"]][[id(x) for x in ([Ua, Ub, Ua], [Ud, Ua, Uc], [Uc, Ud, Ud])].index(id(seq)) if False else 0], "step": step, "clause_idx": int(i)})
    ctx.cov["history_throws"] = nh


def _history_replay(case):
    a6 = (np.arange(6) + 0.5) / 6
    Ua = np.array(list(itertools.product(a6, repeat=4))).T
    named = {"Ua": Ua, "Ub": Ua[::-1].copy(), "Uc": Ua[:, ::-1].copy(), "Ud": Ua[:, :500].copy()}
    out = []
    for which in (["Ua", "Ub", "Ua"], ["Ud", "Ua", "Uc"], ["Uc", "Ud", "Ud"]):
        g = make_geom(case["gc"])
        for nm in which:
            v, _ = judge(case["gc"], named[nm], [0.0, 10.0], g=g)
            out += [(c, e, o) for c, i, e, o, s2 in v[:50]]
    return out


def replay(case):
    if isinstance(case, dict) and case.get("kind") == "pipeline":
        from .. import pipeline

        return pipeline.replay(case)
    if case.get("kind") == "history_full":
        return _history_replay(case)
    if case.get("kind") == "reread":
        return judge_refused_and_reread(case["gc"], case["n"])
    if case.get("kind") == "batch":
        pool = np.array([[(i * p % 97 + 0.5) / 97.0 for i in range(1, 10)] for p in (37, 53, 11, 71)])
        v, _ = judge(case["gc"], pool[:, : case["n"]], [0.0, 10.0])
        return [(c, e, o) for c, i, e, o, s2 in v]
    u = np.array(case["u"], dtype=np.float64).reshape(4, 1)
    s = case.get("s")
    v, _ = judge(case["gc"], u, [s] if s is not None else [0.0], form=case.get("form"))
    return [(c, e, o) for c, i, e, o, s2 in v]
