"""C15 — configuration survives the TOML round trip and units are honoured (E1, deviation-bounded)."""

import copy
import itertools
import math
import os
import shutil
import tempfile

import numpy as np

from ..floats import ulps

PID = "C15"
LEVEL = "exploration"
RULE = (
    "deviation-bounded exhaustive enumeration: 6 base variants (2 spectra x 3 cloud models); per leaf field a value "
    "alphabet (float edges, angles, ints, bools, awkward strings); ALL single-field deviations from the default "
    "(quick) and ALL pairwise deviations (thorough) are written with create_toml and read with config_from_toml; unit "
    "clause: every dimensional field x every unit spelling x {Quantity, 'v unit' string, float, int} x value alphabet; "
    "incompatible units; call histories in which ONE literal quantity string is presented to a field it fits and to a field of "
    "another dimension in both orders (all field x unit spelling x other-dimension pairs); inverted/equal/partial frequency bands and the month alphabets. Distinct by (variant, field, "
    "value index) / (field, unit, form) / (band case) / (month spelling)."
)
ASSUMPTIONS = [
    "None for the Optional sub-models is outside the alphabet (TOML cannot express it)",
    "angle fields go through text in degrees: accepted to 4 ulp; everything else must be exact",
    "a unit-less numeric *string* must be rejected or stored unchanged (the property speaks of bare numbers)",
]

ANGLE_FIELDS = {
    "detector.initial_position.latitude",
    "detector.initial_position.longitude",
    "detector.sun_moon.sun_alt_cut",
    "detector.sun_moon.moon_alt_cut",
    "detector.sun_moon.moon_min_phase_angle_cut",
    "simulation.max_cherenkov_angle",
    "simulation.max_azimuth_angle",
    "simulation.angle_from_limb",
    "simulation.target.source_RA",
    "simulation.target.source_DEC",
}
FLOATS = [0.0, 5e-324, 1e-300, 0.1, 1.0 / 3.0, math.pi / 7.0, 1e300, -2.5]
ANGLES = FLOATS + [math.pi, 2 * math.pi, 1e-12, math.radians(10.0), 0.7853981633974483]
INTS = [0, 1, 2**31, 10**12]
STRS = ["plain", 'q"uote', "it's", "back\\slash", "new\nline", "tab\tbed", "é", "日本", "x" * 300, "", "windows\r\nnewline", "lone\rreturn", "trailing\n", "\r\n", "  spaces  ", "#hash = [not a table]"]


def field_alphabets():
    F = {}
    F["title"] = STRS
    F["detector.name"] = STRS
    F["detector.initial_position.altitude"] = FLOATS
    for f in ANGLE_FIELDS:
        F[f] = ANGLES
    F["detector.sun_moon.sun_moon_cuts"] = [True, False]
    F["detector.optical.enable"] = [True, False]
    F["detector.optical.telescope_effective_area"] = FLOATS
    F["detector.optical.quantum_efficiency"] = FLOATS
    F["detector.optical.photo_electron_threshold"] = FLOATS + [10.5]
    F["detector.radio.enable"] = [True, False]
    F["detector.radio.low_frequency"] = [0.0, 5e-324, 0.1, 1.0 / 3.0, 29.999999999999996, -2.5]
    F["detector.radio.high_frequency"] = [30.000000000000004, 1.0e3 / 3.0, 1e300, 1650.0]
    F["detector.radio.snr_threshold"] = FLOATS
    F["detector.radio.nantennas"] = INTS
    F["detector.radio.gain"] = FLOATS
    F["simulation.mode"] = ["Diffuse", "Target"]
    F["simulation.thrown_events"] = INTS
    F["simulation.ionosphere.enable"] = [True, False]
    F["simulation.ionosphere.total_electron_content"] = FLOATS
    F["simulation.ionosphere.total_electron_error"] = FLOATS
    F["simulation.tau_shower.etau_frac"] = FLOATS
    F["simulation.tau_shower.table_version"] = ["1", "2", "3", "x y"]
    F["simulation.target.source_date"] = ["2022-06-02T01:00:00", "2024-02-29T23:59:59.999", "odd 'date'"]
    F["simulation.target.source_date_format"] = ["isot", "iso"]
    F["simulation.target.source_obst"] = FLOATS + [86400, 3600.5]
    return F


def variant_fields(spec, cloud):
    F = {}
    if spec == "monospectrum":
        F["simulation.spectrum.log_nu_energy"] = FLOATS + [8.0, 11.75]
    else:
        F["simulation.spectrum.index"] = FLOATS + [1.0, 2.2]
        F["simulation.spectrum.lower_bound"] = FLOATS + [6.0]
        F["simulation.spectrum.upper_bound"] = FLOATS + [12.0]
    if cloud == "monocloud":
        F["simulation.cloud_model.altitude"] = FLOATS + [float("-inf"), float("inf"), 3.7]
    if cloud == "pressure_map":
        F["simulation.cloud_model.month"] = list(range(1, 13))
        F["simulation.cloud_model.version"] = [0, "0", 1, "v1"]
    return F


def base_dict(spec, cloud):
    return {"simulation": {"spectrum": {"id": spec}, "cloud_model": {"id": cloud}}}


def set_path(d, path, value):
    ks = path.split(".")
    for k in ks[:-1]:
        d = d.setdefault(k, {})
    d[ks[-1]] = value


def flatten(model, prefix=""):
    from pydantic import BaseModel

    out = {}
    for name in type(model).model_fields:
        v = getattr(model, name)
        p = f"{prefix}{name}"
        if isinstance(v, BaseModel):
            out.update(flatten(v, p + "."))
        else:
            out[p] = v
    return out


def same(path, a, b):
    if type(a) is not type(b) and not (isinstance(a, (int, float)) and isinstance(b, (int, float)) and not isinstance(a, bool) and not isinstance(b, bool)):
        return False
    if isinstance(a, float) and isinstance(b, float):
        if math.isnan(a) and math.isnan(b):
            return True
        if path in ANGLE_FIELDS:
            if a == b:
                return True
            if math.isinf(a) or math.isinf(b):
                return False
            return int(ulps(a, b)) <= 4
        return a == b and math.copysign(1, a) == math.copysign(1, b)
    return a == b


def judge_roundtrip(spec, cloud, overrides, tmp):
    """overrides: list of (path, value). returns violations"""
    from nuspacesim.config import NssConfig, config_from_toml, create_toml

    d = base_dict(spec, cloud)
    for p, v in overrides:
        set_path(d, p, v)
    try:
        c = NssConfig(**copy.deepcopy(d))
    except Exception as ex:
        return None  # not a valid configuration: outside the quantifier
    fa = flatten(c)
    for p, v in overrides:  # a bare number must be stored unchanged
        if isinstance(v, float) and not same("", fa.get(p), v):
            return [("bare_number_unchanged", v, fa.get(p))]
    fn = os.path.join(tmp, "c.toml")
    # (a write that fails part-way - nothing to serialise - to the SAME file name comes first: the valid write that follows
    # must not find anything in its way)
    for notcfg in (None, "not a configuration"):
        try:
            create_toml(fn, notcfg)
        except Exception:
            pass
    try:
        create_toml(fn, c)
        c2 = config_from_toml(fn)
    except Exception as ex:
        return [("roundtrip_no_exception", "config", f"{type(ex).__name__}: {str(ex)[:200]}")]
    fb = flatten(c2)
    out = []
    if set(fa) != set(fb):
        out.append(("roundtrip_fields", sorted(fa), sorted(fb)))
        return out
    for k in fa:
        if not same(k, fa[k], fb[k]):
            out.append(("roundtrip_value", f"{k}={fa[k]!r}", f"{fb[k]!r}"))
            break
    return out


UNITS = {
    "km": (["detector.initial_position.altitude"], ["km", "m", "cm", "mm", "AU", "lyr"], ["deg", "s", "MHz", "m2"]),
    "rad": (sorted(ANGLE_FIELDS), ["rad", "deg", "arcmin", "arcsec", "hourangle", "mas"], ["km", "MHz", "s"]),
    "m2": (["detector.optical.telescope_effective_area"], ["m2", "cm2", "km2", "m**2", "mm2"], ["m", "deg", "MHz"]),
    "MHz": (["detector.radio.low_frequency", "detector.radio.high_frequency"], ["MHz", "Hz", "kHz", "GHz", "1/s"], ["km", "deg", "m2"]),
    "dB": (["detector.radio.gain"], ["dB", "dex"], ["km", "deg", "MHz"]),
}
UVALS = [0.0, 1.0, 0.1, 1.0 / 3.0, 525.0, 7.0]


def model_for(path):
    from nuspacesim.config import Detector, Simulation

    head, leaf = path.rsplit(".", 1)
    cls = {
        "detector.initial_position": Detector.InitialPos,
        "detector.sun_moon": Detector.SunMoon,
        "detector.optical": Detector.Optical,
        "detector.radio": Detector.Radio,
        "simulation": Simulation,
        "simulation.target": Simulation.TargetOfOpportunity,
    }[head]
    return cls, leaf


def judge_unit(path, canon, unit, form, v):
    from astropy import units as u

    cls, leaf = model_for(path)
    extra = {}
    if leaf == "low_frequency":
        extra = {"high_frequency": 1e300}
    if leaf == "high_frequency":
        extra = {"low_frequency": -1e300}
    U = u.Unit(unit)
    if form == "quantity":
        arg = v * U
        exp = (v * U).to_value(u.Unit(canon))
    elif form == "string":
        arg = f"{v!r} {unit}"
        exp = (v * U).to_value(u.Unit(canon))
    elif form == "float":
        arg = float(v)
        exp = float(v)
    elif form.startswith("np."):
        # a bare NumPy scalar is a bare number too
        t = getattr(np, form[3:])
        arg = t(v) if "float" in form else t(int(v) % 200)
        exp = float(arg)
    else:
        arg = int(v)
        exp = float(int(v))
    try:
        m = cls(**{leaf: arg}, **extra)
    except Exception as ex:
        return [("unit_accepted", f"{path}={arg!r} stored as {exp!r}", f"{type(ex).__name__}: {str(ex)[:120]}")]
    got = getattr(m, leaf)
    if not (isinstance(got, float) and (got == exp or int(ulps(got, exp)) <= 1)):
        return [("unit_value", exp, got)]
    return []


def judge_incompatible(path, unit, form):
    from astropy import units as u

    cls, leaf = model_for(path)
    arg = 5.0 * u.Unit(unit) if form == "quantity" else f"5.0 {unit}"
    extra = {}
    if leaf == "low_frequency":
        extra = {"high_frequency": 1e300}
    if leaf == "high_frequency":
        extra = {"low_frequency": -1e300}
    try:
        m = cls(**{leaf: arg}, **extra)
    except Exception:
        return []
    return [("incompatible_unit_rejected", f"{path}={arg!r} rejected", f"stored {getattr(m, leaf)!r}")]


def _try(path, arg):
    cls, leaf = model_for(path)
    extra = {"high_frequency": 1e300} if leaf == "low_frequency" else ({"low_frequency": -1e300} if leaf == "high_frequency" else {})
    try:
        return True, getattr(cls(**{leaf: arg}, **extra), leaf)
    except Exception as ex:
        return False, f"{type(ex).__name__}"


def judge_unit_history(path_a, canon_a, unit, path_b, order):
    """the SAME literal string presented to a field it fits (A) and to a field of another dimension (B), in either order,
    then to A again: acceptance and the stored value may not depend on what was parsed before (E2, depth 3)"""
    from astropy import units as u

    s = f"7.25 {unit}"
    exp = (7.25 * u.Unit(unit)).to_value(u.Unit(canon_a))
    out = []
    seq = [("A", path_a), ("B", path_b), ("A", path_a)] if order == "AB" else [("B", path_b), ("A", path_a), ("B", path_b)]
    for step, (who, path) in enumerate(seq):
        ok, got = _try(path, s)
        if who == "A":
            if not ok:
                out.append(("unit_accepted_after_history", f"{path}={s!r} stored as {exp!r} (step {step} of {order})", got))
            elif not (isinstance(got, float) and (got == exp or int(ulps(got, exp)) <= 1)):
                out.append(("unit_value_after_history", exp, got))
        elif ok:
            out.append(("incompatible_unit_rejected_after_history", f"{path}={s!r} rejected (step {step} of {order}, after the same string was parsed for {path_a})", f"stored {got!r}"))
    return out


ENVS = [
    {"LC_ALL": "C", "LANG": "C", "PYTHONUTF8": "0", "PYTHONCOERCECLOCALE": "0"},
    {"LC_ALL": "POSIX", "LANG": "POSIX", "PYTHONUTF8": "0", "PYTHONCOERCECLOCALE": "0"},
    {"LC_ALL": "C.UTF-8", "LANG": "C.UTF-8"},
    {"LC_ALL": "C", "PYTHONUTF8": "1"},
    {"LC_ALL": "C", "LANG": "C", "PYTHONUTF8": "0", "PYTHONCOERCECLOCALE": "0", "PYTHONIOENCODING": "latin-1"},
]

ENV_CODE = """
import json, os, sys, tempfile
sys.path.insert(0, %r)
from nssmc.checks import c15
tmp = tempfile.mkdtemp()
bad = []
for fld in ("title", "detector.name"):
    for k, sv in enumerate(c15.STRS):
        v = c15.judge_roundtrip("monospectrum", "no_cloud", [(fld, sv)], tmp)
        if v:
            bad.append([fld, k, v[0][0], str(v[0][2])[:120]])
print("ENVRESULT:" + json.dumps(bad))
"""


def judge_env(i):
    """the TOML round trip of the string alphabet in an interpreter started under environment i (locale / default text
    encoding): a configuration file is UTF-8 whatever the terminal's locale says"""
    import json
    import subprocess
    import sys

    root = os.path.dirname(os.path.dirname(os.path.dirname(os.path.abspath(__file__))))
    env = {k: v for k, v in os.environ.items() if k not in ("LC_ALL", "LANG", "LC_CTYPE", "PYTHONUTF8", "PYTHONCOERCECLOCALE", "PYTHONIOENCODING")}
    env.update(ENVS[i])
    r = subprocess.run([sys.executable, "-c", ENV_CODE % root], capture_output=True, text=True, env=env, encoding="utf-8", errors="replace")
    for line in r.stdout.splitlines():
        if line.startswith("ENVRESULT:"):
            return [("roundtrip_independent_of_locale", f"{fld}={STRS[k]!r} survives under {ENVS[i]}", f"{c}: {o}") for fld, k, c, o in json.loads(line[10:])][:3]
    return [("roundtrip_independent_of_locale", f"the round trip runs under {ENVS[i]}", (r.stderr or r.stdout)[-200:])]


def judge_numeric_string(path):
    cls, leaf = model_for(path)
    extra = {"high_frequency": 1e300} if leaf == "low_frequency" else ({"low_frequency": -1e300} if leaf == "high_frequency" else {})
    try:
        m = cls(**{leaf: "5.0"}, **extra)
    except Exception:
        return []
    got = getattr(m, leaf)
    return [] if got == 5.0 else [("numeric_string", "rejected or 5.0", got)]


BANDS = [
    # (kwargs, should_accept)
    ({"low_frequency": 30.0, "high_frequency": 300.0}, True),
    ({"low_frequency": 300.0, "high_frequency": 30.0}, False),
    ({"low_frequency": 100.0, "high_frequency": 100.0}, False),
    ({"low_frequency": "100 MHz", "high_frequency": "0.1 GHz"}, False),
    ({"low_frequency": "0.2 GHz", "high_frequency": "150 MHz"}, False),
    ({"low_frequency": "100 MHz", "high_frequency": "0.10000000000000002 GHz"}, True),
    ({"low_frequency": 300.0}, False),  # high defaults to 300
    ({"low_frequency": 500.0}, False),
    ({"low_frequency": "1 GHz"}, False),
    ({"low_frequency": 299.99999999999994}, True),
    ({"high_frequency": 30.0}, False),  # low defaults to 30
    ({"high_frequency": 20.0}, False),
    ({"high_frequency": "25 MHz"}, False),
    ({"high_frequency": 30.000000000000004}, True),
    ({"high_frequency": 300.0, "low_frequency": 1e300}, False),
    ({"low_frequency": 0.0, "high_frequency": 5e-324}, True),
]


def judge_band(i):
    from nuspacesim.config import Detector, NssConfig

    kw, ok = BANDS[i]
    out = []
    for how in ("model", "nested"):
        try:
            if how == "model":
                m = Detector.Radio(**kw)
            else:
                m = NssConfig(**{"detector": {"radio": dict(kw)}}).detector.radio
            acc = True
        except Exception:
            acc = False
        if acc != ok:
            out.append(("band_validation", f"{kw} {'accepted' if ok else 'rejected'} via {how}", "accepted" if acc else "rejected"))
    return out


def month_alphabet():
    import calendar

    acc = []
    for m in range(1, 13):
        acc += [(m, m), (str(m), m), (f"{m:02d}", m), (calendar.month_name[m], m), (calendar.month_abbr[m], m), (calendar.month_name[m].lower(), m), (calendar.month_abbr[m].upper(), m)]
    rej = [0, 13, -1, "0", "13", "Janu", "", "Foo", "1.5", 100]
    return acc, rej


def judge_month(val, expect):
    from nuspacesim.config import Simulation

    try:
        m = Simulation.PressureMapCloud(month=val)
        got = m.month
    except Exception as ex:
        got = None
    if expect is None:
        return [] if got is None else [("month_rejected", f"{val!r} rejected", got)]
    return [] if got == expect else [("month_accepted", f"{val!r} -> {expect}", got)]


CLI_CASES = [
    (["-n", "1"], {"simulation.thrown_events": 1}),
    (["-n", "1e5"], {"simulation.thrown_events": 100000}),
    (["--monospectrum", "11.5"], {"simulation.spectrum.id": "monospectrum", "simulation.spectrum.log_nu_energy": 11.5}),
    (["--powerspectrum", "2.2", "7", "11"], {"simulation.spectrum.id": "powerspectrum", "simulation.spectrum.index": 2.2, "simulation.spectrum.lower_bound": 7.0, "simulation.spectrum.upper_bound": 11.0}),
    (["--powerspectrum", "1", "6", "12", "-n", "7"], {"simulation.spectrum.id": "powerspectrum", "simulation.spectrum.index": 1.0, "simulation.thrown_events": 7}),
    (["--nocloud"], {"simulation.cloud_model.id": "no_cloud"}),
    (["--monocloud", "3.7"], {"simulation.cloud_model.id": "monocloud", "simulation.cloud_model.altitude": 3.7}),
    (["--pressuremapcloud", "7"], {"simulation.cloud_model.id": "pressure_map", "simulation.cloud_model.month": 7}),
    (["--pressuremapcloud", "December"], {"simulation.cloud_model.id": "pressure_map", "simulation.cloud_model.month": 12}),
    (["--pressuremapcloud", "Feb", "--monospectrum", "9.25"], {"simulation.cloud_model.month": 2, "simulation.spectrum.log_nu_energy": 9.25}),
]


def judge_create_cli(i, tmp):
    """the `nuspacesim create-config` command writes a TOML file that reads back as the default configuration with
    exactly the requested overrides"""
    from click.testing import CliRunner

    from nuspacesim.apps.create_config import create_config
    from nuspacesim.config import NssConfig, config_from_toml

    args, exp = CLI_CASES[i]
    fn = os.path.join(tmp, f"cli_{i}.toml")
    res = CliRunner().invoke(create_config, args + [fn])
    if res.exit_code != 0 or not os.path.exists(fn):
        return [("create_config_cli", f"{args} writes a file", f"exit {res.exit_code}: {str(res.exception)[:100]}")]
    try:
        c = config_from_toml(fn)
    except Exception as ex:
        return [("create_config_cli", f"{args} readable", f"{type(ex).__name__}: {str(ex)[:100]}")]
    got = flatten(c)
    base = flatten(NssConfig())
    if "simulation.thrown_events" not in exp:
        base["simulation.thrown_events"] = 100  # the command's documented default count
    out = []
    for k, v in exp.items():
        if k not in got or not same(k, got[k], v if not isinstance(v, int) or isinstance(got.get(k), int) else float(v)):
            out.append(("create_config_cli", f"{args}: {k}={v!r}", repr(got.get(k))))
    for k, v in base.items():
        if k in exp or k.startswith("simulation.spectrum.") and any(e.startswith("simulation.spectrum.") for e in exp) or k.startswith("simulation.cloud_model.") and any(e.startswith("simulation.cloud_model.") for e in exp):
            continue
        if k not in got or not same(k, got[k], v):
            out.append(("create_config_cli", f"{args}: untouched field {k}={v!r}", repr(got.get(k))))
            break
    return out


def run(ctx):
    tier = ctx.tier
    tmp = tempfile.mkdtemp(prefix="nssmc_c15_")
    try:
        base = field_alphabets()
        variants = list(itertools.product(["monospectrum", "powerspectrum"], ["no_cloud", "monocloud", "pressure_map"]))
        n_rt = n_skip = 0
        for vi, (spec, cloud) in enumerate(variants):
            F = dict(base)
            F.update(variant_fields(spec, cloud))
            v = judge_roundtrip(spec, cloud, [], tmp)
            ctx.tick(1, ("rt0", spec, cloud))
            for c, e, o in v or []:
                ctx.violation(c, {"kind": "rt", "spec": spec, "cloud": cloud, "ov": []}, e, o)
            items = [(p, k, val) for p in sorted(F) for k, val in enumerate(F[p])]
            for p, k, val in items:
                v = judge_roundtrip(spec, cloud, [(p, val)], tmp)
                if v is None:
                    n_skip += 1
                    continue
                n_rt += 1
                ctx.tick(1, ("rt1", vi, p, k))
                for c, e, o in v:
                    ctx.violation(c, {"kind": "rt", "spec": spec, "cloud": cloud, "ov": [[p, val]]}, e, o)
            if tier == "thorough" and vi in (1, 5):
                # all pairwise deviations on two variants (mono+monocloud, power+pressure_map), thinned value alphabet
                thin = [(p, k, val) for p, k, val in items if k % 2 == 0]
                for (p1, k1, v1), (p2, k2, v2) in itertools.combinations(thin, 2):
                    if p1 == p2:
                        continue
                    v = judge_roundtrip(spec, cloud, [(p1, v1), (p2, v2)], tmp)
                    if v is None:
                        n_skip += 1
                        continue
                    n_rt += 1
                    ctx.tick(1)
                    for c, e, o in v:
                        ctx.violation(c, {"kind": "rt", "spec": spec, "cloud": cloud, "ov": [[p1, v1], [p2, v2]]}, e, o)
                ctx.sigs.add(("rt2", vi))
        ctx.cov["roundtrips"] = n_rt
        ctx.cov["invalid_configurations_skipped"] = n_skip
        ctx.sample({"kind": "rt", "spec": "powerspectrum", "cloud": "pressure_map", "override": ["detector.name", 'q"uote']})
        # units
        n_u = 0
        for canon, (paths, units, bad) in UNITS.items():
            for p in paths:
                for unit in units:
                    for form in ("quantity", "string"):
                        for v in UVALS:
                            ctx.tick(1, ("unit", p, unit, form))
                            n_u += 1
                            for c, e, o in judge_unit(p, canon, unit, form, v):
                                ctx.violation(c, {"kind": "unit", "path": p, "canon": canon, "unit": unit, "form": form, "v": v}, e, o)
                for form in ("float", "int", "np.float64", "np.float32", "np.int64", "np.int32", "np.uint8"):
                    for v in UVALS:
                        ctx.tick(1, ("bare", p, form))
                        n_u += 1
                        for c, e, o in judge_unit(p, canon, canon, form, v):
                            ctx.violation(c, {"kind": "unit", "path": p, "canon": canon, "unit": canon, "form": form, "v": v}, e, o)
                for unit in bad:
                    for form in ("quantity", "string"):
                        ctx.tick(1, ("incompat", p, unit, form))
                        for c, e, o in judge_incompatible(p, unit, form):
                            ctx.violation(c, {"kind": "incompat", "path": p, "unit": unit, "form": form}, e, o)
                ctx.tick(1, ("numstr", p))
                for c, e, o in judge_numeric_string(p):
                    ctx.violation(c, {"kind": "numstr", "path": p}, e, o)
        ctx.cov["unit_cases"] = n_u
        # call histories: one literal string, two fields of different dimension, both orders
        n_h = 0
        for canon, (paths, units, bad) in UNITS.items():
            for canon_b, (paths_b, _, _) in UNITS.items():
                if canon_b == canon:
                    continue
                for p in paths:
                    for unit in units:
                        for order in ("AB", "BA"):
                            ctx.tick(1, ("unit_hist", canon, canon_b, unit, order))
                            n_h += 1
                            for c, e, o in judge_unit_history(p, canon, unit, paths_b[0], order):
                                ctx.violation(c, {"kind": "unit_hist", "a": p, "canon": canon, "unit": unit, "b": paths_b[0], "order": order}, e, o)
        ctx.cov["unit_string_reuse_histories"] = n_h
        ctx.sample({"kind": "unit", "path": "detector.initial_position.latitude", "arg": "0.3333333333333333 arcmin"})
        import concurrent.futures as _cf

        with _cf.ThreadPoolExecutor(len(ENVS)) as ex:
            for i, v in enumerate(ex.map(judge_env, range(len(ENVS)))):
                ctx.tick(2 * len(STRS), ("env", i))
                for c, e, o in v:
                    ctx.violation(c, {"kind": "env", "i": i}, e, o)
        for i in range(len(BANDS)):
            ctx.tick(1, ("band", i))
            for c, e, o in judge_band(i):
                ctx.violation(c, {"kind": "band", "i": i}, e, o)
        for i in range(len(CLI_CASES)):
            ctx.tick(1, ("create_cli", i))
            for c, e, o in judge_create_cli(i, tmp):
                ctx.violation(c, {"kind": "create_cli", "i": i}, e, o)
        acc, rej = month_alphabet()
        for val, m in acc:
            ctx.tick(1, ("month", repr(val)))
            for c, e, o in judge_month(val, m):
                ctx.violation(c, {"kind": "month", "val": val, "expect": m}, e, o)
        for val in rej:
            ctx.tick(1, ("month_rej", repr(val)))
            for c, e, o in judge_month(val, None):
                ctx.violation(c, {"kind": "month", "val": val, "expect": None}, e, o)
    finally:
        shutil.rmtree(tmp, ignore_errors=True)


def replay(case):
    k = case["kind"]
    if k == "rt":
        tmp = tempfile.mkdtemp(prefix="nssmc_c15r_")
        try:
            return judge_roundtrip(case["spec"], case["cloud"], [tuple(x) for x in case["ov"]], tmp) or []
        finally:
            shutil.rmtree(tmp, ignore_errors=True)
    if k == "create_cli":
        tmp = tempfile.mkdtemp(prefix="nssmc_c15r_")
        try:
            return judge_create_cli(case["i"], tmp)
        finally:
            shutil.rmtree(tmp, ignore_errors=True)
    if k == "unit":
        return judge_unit(case["path"], case["canon"], case["unit"], case["form"], case["v"])
    if k == "incompat":
        return judge_incompatible(case["path"], case["unit"], case["form"])
    if k == "unit_hist":
        return judge_unit_history(case["a"], case["canon"], case["unit"], case["b"], case["order"])
    if k == "numstr":
        return judge_numeric_string(case["path"])
    if k == "band":
        return judge_band(case["i"])
    if k == "env":
        return judge_env(case["i"])
    if k == "month":
        return judge_month(case["val"], case["expect"])
    return []
