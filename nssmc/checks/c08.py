"""C08 — optical signal chain: inverse-square, linearity, range cut, effective cone (E1 lattice, spy kernel + real kernel)."""

import itertools
import math

import numpy as np

from .. import own, par, sim
from ..floats import ulps

PID = "C08"
LEVEL = "exploration"
RULE = (
    "full product of alphabets through EAS.__call__ with a spy kernel (returns harness-chosen density/angle, records what "
    "it is asked to simulate): decay altitude {-1,-1e-300,-0.0,0,10,20,20+1ulp,25,+inf} x PE/threshold ratio {0,1,2-1ulp,"
    "2,2+1ulp,e,10,1e6} x intrinsic angle x telescope area x quantum efficiency x threshold, as mixed batches incl. the "
    "all-out-of-range and empty batches; and the REAL kernel for detector altitudes {33,100,400,525,1000,36000} km over "
    "an event lattice. Distinct by (in/out of range, ratio class (<=2, >2), area, QE, threshold) / (altitude, event)."
)
ASSUMPTIONS = [
    "shower-to-detector distances for the inverse-square clause come from an explicit straight-line/sphere intersection (own code), Earth radius 6378.14 km as in the optical kernel",
    "density ratio between altitudes accepted to 1e-4 relative (the kernel works in single precision; measured loss <= 2.2e-5), Cherenkov angle must be bit-identical",
]

RE = 6378.14


def s_of(z, beta):
    """path length from the surface point to altitude z along a straight line emerging at angle beta"""
    return -RE * math.sin(beta) + math.sqrt((RE * math.sin(beta)) ** 2 + 2 * RE * z + z * z)


class Spy:
    def __init__(self, table):
        self.table = table  # beta(id) -> (density, angle)
        self.calls = []

    def __call__(self, beta, altDec, E, lat, lon, cloudf=None):
        b = np.asarray(beta, dtype=float)
        self.calls.append((b.copy(), np.asarray(altDec, dtype=float).copy()))
        if b.size == 0:
            return np.empty([]), np.empty([])
        d = np.array([self.table[float(x)][0] for x in b])
        a = np.array([self.table[float(x)][1] for x in b])
        return d, a


def eff_ref(pe, thr, ang):
    r = pe / thr
    if r > 2.0:
        f = math.sqrt(2.0 * math.log(r))
        return ang * max(1.0, f)
    return ang


INPUT_FORMS = [("f8", "f8", "f8"), ("i8", "f8", "f8"), ("i4", "i8", "i8"), ("f4", "f4", "f4"), ("i8", "f8", "f4"), (">f8", ">f8", ">f8")]


def judge_wrapper(area, qe, thr, events, forms=("f8", "f8", "f8")):
    """events: list of (altDec, density, angle_deg). returns violations, info. forms: dtypes of the (altDec, shower
    energy, site) arrays handed in -- integer / single-precision / byte-swapped arrays holding the same numbers"""
    from nuspacesim.simulation.eas_optical.eas import EAS

    cfg = sim.make_config(extra={"detector": {"optical": {"telescope_effective_area": area, "quantum_efficiency": qe, "photo_electron_threshold": thr}}})
    eas = EAS(cfg)
    n = len(events)
    beta = np.array([0.01 + 0.001 * i for i in range(n)])
    table = {float(b): (ev[1], ev[2]) for b, ev in zip(beta, events)}
    spy = Spy(table)
    eas.CphotAng = spy
    alt = np.array([ev[0] for ev in events], dtype=float).astype(forms[0])
    E = np.full(n, 1.0).astype(forms[1])
    lat = np.zeros(n).astype(forms[2])
    lon = np.zeros(n).astype(forms[2])
    ins = [beta.copy(), alt.copy(), E.copy(), lat.copy(), lon.copy()]
    try:
        pes, ceff = eas(beta, alt, E, lat, lon, cloudf=None)
    except Exception as ex:
        return [("wrapper_no_exception", "values", f"{type(ex).__name__}: {ex}")]
    out = []
    pes = np.asarray(pes, dtype=float)
    ceff = np.asarray(ceff, dtype=float)
    if pes.shape != (n,) or ceff.shape != (n,):
        return [("wrapper_shape", (n,), [pes.shape, ceff.shape])]
    asked = np.concatenate([c[0] for c in spy.calls]) if spy.calls else np.array([])
    for i, (a, dens, ang) in enumerate(events):
        inr = (a >= 0.0) and (a <= 20.0)
        was = float(beta[i]) in set(asked.tolist())
        if inr:
            if not was:
                out.append(("in_range_event_is_simulated", f"event {i} altDec={a}", "not passed to the kernel"))
                continue
            exp_pe = dens * area * qe
            if not (ulps(pes[i], exp_pe) <= 2):
                out.append(("pe_is_density_area_qe", exp_pe, float(pes[i])))
            eff = eff_ref(pes[i], thr, ang)
            exp_c = math.cos(math.radians(eff))
            if not (abs(ceff[i] - exp_c) <= 4e-16 + 1e-15 * abs(exp_c)):
                out.append(("effective_angle_formula", exp_c, float(ceff[i])))
            if not (ceff[i] <= math.cos(math.radians(ang)) + 1e-15):
                out.append(("effective_ge_intrinsic", math.cos(math.radians(ang)), float(ceff[i])))
        else:
            if was:
                out.append(("out_of_range_not_simulated", f"event {i} altDec={a}", "passed to the kernel"))
            if not (pes[i] == 0.0):
                out.append(("out_of_range_zero_pe", 0.0, float(pes[i])))
            if not (ceff[i] == math.cos(math.radians(1.5))):
                out.append(("out_of_range_default_angle", math.cos(math.radians(1.5)), float(ceff[i])))
    for a, b in zip([beta, alt, E, lat, lon], ins):
        if a.tobytes() != b.tobytes():
            out.append(("inputs_unmodified", "unchanged", "changed"))
            break
    return out


def judge_wrapper_history(area, qe, thr):
    """all sequences of length <= 3 over three same-shaped batches on ONE EAS object (spy kernel): every call must give
    what the same batch gives on a fresh object"""
    from nuspacesim.simulation.eas_optical.eas import EAS

    cfg = sim.make_config(extra={"detector": {"optical": {"telescope_effective_area": area, "quantum_efficiency": qe, "photo_electron_threshold": thr}}})
    A = [(10.0, 5.0, 1.2), (25.0, 7.0, 0.7), (0.0, 1e3, 2.0), (-1.0, 3.0, 0.3)]
    B = [(25.0, 5.0, 1.2), (10.0, 7.0, 0.7), (-0.5, 1e3, 2.0), (5.0, 3.0, 0.3)]
    C = [(10.0, 0.0, 3.0), (10.0, 50.0, 0.1), (30.0, 1.0, 1.0), (20.0, 9.0, 0.9)]
    batches = [A, B, C]

    def call(eas, evs):
        n = len(evs)
        beta = np.array([0.01 + 0.001 * i for i in range(n)])
        eas.CphotAng = Spy({float(b): (ev[1], ev[2]) for b, ev in zip(beta, evs)})
        pe, ce = eas(beta, np.array([e[0] for e in evs], dtype=float), np.ones(n), np.zeros(n), np.zeros(n), cloudf=None)
        return np.asarray(pe, dtype=float).tobytes() + np.asarray(ce, dtype=float).tobytes()

    fresh = [call(EAS(cfg), b) for b in batches]
    out = []
    n = 0
    for d in (2, 3):
        for seq in itertools.product(range(3), repeat=d):
            eas = EAS(cfg)
            for pos, k in enumerate(seq):
                n += 1
                if call(eas, batches[k]) != fresh[k]:
                    out.append(("wrapper_independent_of_call_history", list(seq[: pos + 1]), "same as on a fresh object", "differs"))
                    break
    return out, n


CFG_STEPS = [("telescope_effective_area", 0.5), ("telescope_effective_area", 10.0), ("quantum_efficiency", 1.0), ("quantum_efficiency", 0.1), ("photo_electron_threshold", 1.0), ("photo_electron_threshold", 100.0)]


def judge_wrapper_config_scan(seq):
    """ONE EAS object on one live configuration whose optical parameters are changed in place between calls (an
    area / efficiency / threshold scan): every call equals a fresh object built with the values in force (spy kernel)"""
    from nuspacesim.simulation.eas_optical.eas import EAS

    val = {"telescope_effective_area": 2.5, "quantum_efficiency": 0.2, "photo_electron_threshold": 10.0}
    cfg = sim.make_config(extra={"detector": {"optical": dict(val)}})
    evs = [(10.0, 5.0, 1.2), (25.0, 7.0, 0.7), (0.0, 1e3, 2.0), (-1.0, 3.0, 0.3), (10.0, 35.0, 1.0), (10.0, 0.9, 1.0)]

    def call(eas):
        n = len(evs)
        beta = np.array([0.01 + 0.001 * i for i in range(n)])
        eas.CphotAng = Spy({float(b): (ev[1], ev[2]) for b, ev in zip(beta, evs)})
        pe, ce = eas(beta, np.array([e[0] for e in evs], dtype=float), np.ones(n), np.zeros(n), np.zeros(n), cloudf=None)
        return np.asarray(pe, dtype=float).tobytes() + np.asarray(ce, dtype=float).tobytes()

    # pass 1: what a fresh object returns for the values in force after every step (computed up front, so that no
    # reference call runs between two calls of the history)
    vals = [dict(val)]
    for i in seq:
        k, v = CFG_STEPS[i % len(CFG_STEPS)]
        vals.append({**vals[-1], k: v})
    wants = [call(EAS(sim.make_config(extra={"detector": {"optical": dict(v_)}}))) for v_ in vals]
    eas = EAS(cfg)
    for step in range(len(seq) + 1):
        if step:
            k, v = CFG_STEPS[seq[step - 1] % len(CFG_STEPS)]
            how = seq[step - 1] // len(CFG_STEPS)  # 0: set in place, 1: optical section replaced, 2: detector section replaced
            val[k] = v
            if how == 0:
                setattr(cfg.detector.optical, k, v)
            elif how == 1:
                cfg.detector.optical = type(cfg.detector.optical)(**val)
            else:
                cfg.detector = cfg.detector.model_copy(update={"optical": type(cfg.detector.optical)(**val)})
        if call(eas) != wants[step]:
            return [("wrapper_uses_the_configuration_in_force", [(("set", "optical replaced", "detector replaced")[i // len(CFG_STEPS)],) + CFG_STEPS[i % len(CFG_STEPS)] for i in seq[:step]], "same as a fresh object with these values", "differs")]
    return []


def ratio_alphabet():
    return [0.0, 1.0, float(np.nextafter(2.0, 0)), 2.0, float(np.nextafter(2.0, 3)), math.e, 10.0, 1e6]


ALTS = [-1.0, -1e-300, -0.0, 0.0, 10.0, 20.0, float(np.nextafter(20.0, 21)), 25.0, float("inf")]


def judge_monotone(area, qe, thr, ang):
    """effective angle never decreases with signal: sorted density alphabet through the wrapper"""
    rs = sorted(set(ratio_alphabet() + [1.5, 1.9, 2.1, 3.0, 100.0]))
    evs = [(10.0, r * thr / (area * qe), ang) for r in rs]
    from nuspacesim.simulation.eas_optical.eas import EAS

    cfg = sim.make_config(extra={"detector": {"optical": {"telescope_effective_area": area, "quantum_efficiency": qe, "photo_electron_threshold": thr}}})
    eas = EAS(cfg)
    n = len(evs)
    beta = np.array([0.01 + 0.001 * i for i in range(n)])
    eas.CphotAng = Spy({float(b): (ev[1], ev[2]) for b, ev in zip(beta, evs)})
    pes, ceff = eas(beta, np.full(n, 10.0), np.ones(n), np.zeros(n), np.zeros(n), cloudf=None)
    ceff = np.asarray(ceff)
    if np.any(np.diff(ceff) > 1e-16):
        i = int(np.where(np.diff(ceff) > 1e-16)[0][0])
        return [("effective_angle_monotone_in_signal", float(ceff[i]), float(ceff[i + 1]))]
    return []


# ---- real kernel ----------------------------------------------------------------------------

def kernel_events(tier):
    # (angles below 1 deg are treated as 1 deg by the kernel: the altitude scaling must use the clamped angle too)
    betas = [math.radians(b) for b in ([0.0, 0.5, 1.0, 5.0, 15.0, 30.0, 42.0, 60.0, 86.0] if tier == "quick" else [0.0, 0.3, 0.5, 0.99, 1.0, 3.0, 5.0, 10.0, 15.0, 25.0, 30.0, 42.0, 60.0, 75.0, 85.9, 86.0])]  # (the wrapper takes ANY emergence angle: steep tracks up to 86 deg included; the law-of-sines distance is singular at 90 deg and already 1.6 % off at 89.9 deg in single precision, so the last degrees are left out)
    alts = [0.0, 2.0, 8.0, 15.0, 20.0] if tier == "quick" else [0.0, 0.5, 2.0, 5.0, 8.0, 11.0, 15.0, 20.0]
    Es = [1e-3, 0.1, 1.0, 50.0] if tier == "quick" else [1e-4, 1e-3, 0.1, 1.0, 50.0, 1e3]
    return list(itertools.product(betas, alts, Es))


def _kernel_eval(args):
    from nuspacesim.simulation.eas_optical.cphotang import CphotAng

    h, evs = args
    k = CphotAng(h)
    out = []
    for b, a, E in evs:
        with np.errstate(all="ignore"):
            d, ang = k.run(np.float64(b), np.float64(a), np.float64(E), 0.0, 0.0, None)
        out.append((float(d), float(ang)))
    return out


def judge_kernel(evs, heights, results):
    out = []
    ref = results[heights.index(525.0)]
    for hi, h in enumerate(heights):
        for (b, a, E), (d525, a525), (dh, ah) in zip(evs, ref, results[hi]):
            be = max(b, math.radians(1.0))
            # straight-line distances from the decay point to either detector
            d_ref = s_of(525.0, be) - s_of(a, be)
            d_h = s_of(h, be) - s_of(a, be)
            if d_h == 0:
                continue  # the detector AT the decay point: no distance ratio exists
            exp = d525 * (d_ref / d_h) ** 2
            # the production kernel evaluates both distances in single precision (float32 beta, radius and orbit
            # height); with the cancellation in the small-angle terms the measured loss is up to 2.2e-5 relative
            # beyond the 42 deg the geometry stage ever passes on, the law-of-sines form the kernel uses loses more to
            # single-precision cancellation (Earth-centre angles of a few 1e-4 rad): measured up to 4.1e-4 at 86 deg;
            # these steep tracks are in the lattice to catch gross slips (a degree/radian confusion), not rounding
            tol = 1e-4 if b <= math.radians(42.0) + 1e-12 else 5e-3
            # ... and a detector a few km from the decay point: both distances are differences of Earth-radius-sized
            # single-precision numbers, worth 2 x (a few eps32) x R / |d| in the squared ratio (measured 1.8e-4 at 8 km)
            # ... and the two compound: the law-of-sines distance carries its rounding error divided by cos(beta), so
            # for a steep track the nearby-detector term grows by cos(42 deg) / cos(beta) (x 10 at 85.9 deg; measured
            # 1.67e-2 for a detector 1 km above an 11 km decay at 85.9 deg, 4e-14 with the kernel run in double
            # precision through the NUSPACESIM_VERIF_DTYPE hook - the formula is right, the digits are single)
            steep = max(1.0, math.cos(math.radians(42.0)) / max(math.cos(b), 1e-12))
            tol = max(tol, steep * 8 * 6e-8 * 6378.0 / max(abs(d_h), 1e-9))
            if not (abs(dh - exp) <= tol * abs(exp) + 1e-300):
                out.append(("inverse_square_altitude_scaling", (h, b, a, E), exp, dh))
            if not (np.float64(ah).tobytes() == np.float64(a525).tobytes()):
                out.append(("angle_unchanged_by_altitude", (h, b, a, E), a525, ah))
            if not (math.isfinite(dh) and dh >= 0 and math.isfinite(ah) and ah >= 0):
                out.append(("finite_nonnegative", (h, b, a, E), ">=0 finite", [dh, ah]))
    return out


def judge_wrapper_real(order):
    """several EAS objects for different detector altitudes constructed one after another IN ONE PROCESS, real kernel:
    each must scale by its own altitude (state shared between wrapper instances would show here)."""
    import dask

    from nuspacesim.simulation.eas_optical.cphotang import CphotAng
    from nuspacesim.simulation.eas_optical.eas import EAS

    evs = [(math.radians(5.0), 2.0, 1.0), (math.radians(20.0), 8.0, 0.1), (math.radians(35.0), 0.5, 10.0)]
    b = np.array([e[0] for e in evs])
    a = np.array([e[1] for e in evs])
    E = np.array([e[2] for e in evs])
    out = []
    objs = []
    first = {}
    with own.null_progress(), dask.config.set(scheduler="synchronous"), np.errstate(all="ignore"):
        for h in order:
            objs.append((h, EAS(sim.make_config(altitude=h))))
        base = [CphotAng(525.0).run(np.float64(x), np.float64(y), np.float64(z), 0.0, 0.0, None) for x, y, z in evs]
        for h, eas in objs:
            pes, ceff = eas(b.copy(), a.copy(), E.copy(), np.zeros(3), np.zeros(3), cloudf=None)
            dens = np.asarray(pes) / (2.5 * 0.2)
            for i, (x, y, z) in enumerate(evs):
                be = max(x, math.radians(1.0))
                exp = float(base[i][0]) * ((s_of(525.0, be) - s_of(y, be)) / (s_of(h, be) - s_of(y, be))) ** 2
                if not (abs(dens[i] - exp) <= 1e-4 * abs(exp)):
                    out.append(("wrapper_scales_by_its_own_altitude", f"h={h} event {i}: {exp}", float(dens[i])))
            first[h] = (np.asarray(pes, dtype=np.float64).tobytes(), np.asarray(ceff, dtype=np.float64).tobytes())
        # the SAME batch once more through every wrapper (reverse order): PE = density x area x QE each time, bit for bit
        for h, eas in objs[::-1]:
            pes, ceff = eas(b.copy(), a.copy(), E.copy(), np.zeros(3), np.zeros(3), cloudf=None)
            if (np.asarray(pes, dtype=np.float64).tobytes(), np.asarray(ceff, dtype=np.float64).tobytes()) != first[h]:
                out.append(("wrapper_repeat_call_identical", f"h={h}: PEs {np.frombuffer(first[h][0]).tolist()}", np.asarray(pes, dtype=np.float64).tolist()))
    return out


def judge_large_batch(h, n):
    """more events than one 100-event partition, in no particular order, through the wrapper with the real kernel: the
    batch is the concatenation of its two halves (which are each a single partition), lane by lane, bit for bit"""
    import dask

    from nuspacesim.simulation.eas_optical.eas import EAS

    k = np.arange(n)
    b = np.radians(3.0 + 30.0 * ((k * 0.6180339887498949) % 1.0))
    a = 0.2 + 14.0 * ((k * 0.7548776662466927) % 1.0)
    a[7::23] = 25.0  # a few decays above the 20 km range cut
    E = 10.0 ** (-1.0 + 3.0 * ((k * 0.5698402909980532) % 1.0))
    z = np.zeros(n)
    out = []
    with own.null_progress(), dask.config.set(scheduler="synchronous"), np.errstate(all="ignore"):
        eas = EAS(sim.make_config(altitude=h))
        whole = eas(b.copy(), a.copy(), E.copy(), z.copy(), z.copy(), cloudf=None)
        m = n // 2
        h1 = EAS(sim.make_config(altitude=h))(b[:m].copy(), a[:m].copy(), E[:m].copy(), z[:m].copy(), z[:m].copy(), cloudf=None)
        h2 = EAS(sim.make_config(altitude=h))(b[m:].copy(), a[m:].copy(), E[m:].copy(), z[m:].copy(), z[m:].copy(), cloudf=None)
    for j, name in ((0, "numPEs"), (1, "costhetaChEff")):
        w = np.asarray(whole[j], dtype=np.float64)
        c = np.concatenate([np.asarray(h1[j], dtype=np.float64), np.asarray(h2[j], dtype=np.float64)])
        bad = np.where(w.view(np.int64) != c.view(np.int64))[0] if w.shape == c.shape else [0]
        if len(bad):
            i = int(bad[0])
            out.append(("large_batch_is_the_concatenation_of_its_halves", f"{name}[{i}] = {float(c[i]) if c.shape == w.shape else c.shape!r} (event beta={float(b[i])!r}, altDec={float(a[i])!r}, E={float(E[i])!r})", float(w[i]) if c.shape == w.shape else repr(w.shape)))
    return out


def run(ctx):
    from .. import pipeline

    # wiring: the run's stored columns are this stage applied to the run's stored columns (see nssmc/pipeline.py)
    pipeline.run_in(ctx, ['optical'], ('B', 'C'), plots=['eas_optical_density', 'eas_optical_histogram'])
    tier = ctx.tier
    for order in ([525.0, 33.0, 1000.0, 36000.0], [33.0, 525.0], [36000.0, 400.0, 525.0]):
        ctx.tick(3 * len(order), ("wrapper_real", tuple(order)))
        for c, e, o in judge_wrapper_real(order)[:3]:
            ctx.violation(c, {"kind": "wreal", "order": order}, e, o)
    for h, n in ((33.0, 130), (525.0, 101)):
        ctx.tick(2 * n, ("large_batch", h, n))
        for c, e, o in judge_large_batch(h, n):
            ctx.violation(c, {"kind": "large_batch", "h": h, "n": n}, e, o)
    v, n = judge_wrapper_history(2.5, 0.2, 10.0)
    ctx.tick(n, ("wrapper_history",))
    for c, seq, e, o in v[:3]:
        ctx.violation(c, {"kind": "whist", "seq": seq}, e, o)
    # the same numbers handed in as integer, single-precision and byte-swapped arrays (whole-km altitude scans)
    for forms in INPUT_FORMS:
        for area, qe, thr in ((2.5, 0.2, 10.0), (0.5, 1.0, 1.0)):
            evs = [(float(a), r * thr / (area * qe), ang) for a in (-5, 0, 5, 10, 20, 25) for r, ang in ((1.0, 0.7), (3.0, 1.2), (1e3, 0.36))]
            ctx.tick(len(evs), ("wrapper_forms", forms, area))
            seen = set()
            for c, e, o in judge_wrapper(area, qe, thr, evs, forms):
                if c not in seen:
                    seen.add(c)
                    ctx.violation(c, {"kind": "wrap", "area": area, "qe": qe, "thr": thr, "events": evs, "forms": list(forms)}, e, o)
    nscan = 0
    for d in ((1, 2) if tier == "quick" else (1, 2, 3)):
        for seq in itertools.product(range(3 * len(CFG_STEPS)), repeat=d):
            if d == 3 and (any(CFG_STEPS[a % len(CFG_STEPS)][0] == CFG_STEPS[b % len(CFG_STEPS)][0] for a, b in zip(seq, seq[1:])) or len({i // len(CFG_STEPS) for i in seq}) == 1):
                continue
            nscan += 1
            ctx.tick(d + 1, ("wrapper_config_scan",) + tuple(seq))
            for c, sq, e, o in judge_wrapper_config_scan(seq):
                ctx.violation(c, {"kind": "wscan", "seq": list(seq)}, e, o)
    ctx.cov["wrapper_configuration_scan_histories"] = nscan
    areas = [0.5, 2.5, 10.0]
    qes = [0.1, 0.2, 1.0]
    thrs = [1.0, 10.0, 100.0]
    angs = [0.1, 1.5, 5.0]
    ratios = ratio_alphabet()
    n = 0
    for area, qe, thr in itertools.product(areas, qes, thrs):
        for ang in angs:
            # one batch holding the whole (altDec x ratio) product: in- and out-of-range events mixed
            evs = [(a, r * thr / (area * qe), ang) for a in ALTS for r in ratios]
            v = judge_wrapper(area, qe, thr, evs)
            n += len(evs)
            ctx.tick(len(evs))
            for a in ALTS:
                for r in ratios:
                    ctx.sigs.add(("w", 0 <= a <= 20, r > 2.0, area, qe, thr))
            for c, e, o in v[:6]:
                # minimise to a single-event batch if it reproduces there
                case = {"kind": "wrap", "area": area, "qe": qe, "thr": thr, "events": evs}
                for ev in evs:
                    if any(c1 == c for c1, _, _ in judge_wrapper(area, qe, thr, [ev])):
                        case = {"kind": "wrap", "area": area, "qe": qe, "thr": thr, "events": [ev]}
                        break
                ctx.violation(c, case, e, o)
            for c, e, o in judge_monotone(area, qe, thr, ang):
                ctx.violation(c, {"kind": "mono", "area": area, "qe": qe, "thr": thr, "ang": ang}, e, o)
            ctx.tick(13)
        # batch compositions: all out of range, single events, empty
        for evs in ([(25.0, 5.0, 1.5), (-1.0, 5.0, 1.5), (float("inf"), 1.0, 1.5)], [(10.0, 4.0, 1.2)], [(-0.0, 4.0, 1.2)], [], [(20.0, 1e9, 0.3), (25.0, 1e9, 0.3), (0.0, 0.0, 2.0)]):
            v = judge_wrapper(area, qe, thr, evs)
            n += max(len(evs), 1)
            ctx.tick(max(len(evs), 1), ("batch", len(evs), tuple(0 <= e[0] <= 20 for e in evs)))
            for c, e, o in v:
                ctx.violation(c, {"kind": "wrap", "area": area, "qe": qe, "thr": thr, "events": evs}, e, o)
    ctx.cov["wrapper_events"] = n
    ctx.sample({"kind": "wrapper", "altDec": 20.000000000000004, "PE_over_threshold": 2.0000000000000004, "area": 2.5, "qe": 0.2, "threshold": 10.0})
    # real kernel at several detector altitudes
    heights = [0.0, 12.0, 33.0, 100.0, 400.0, 525.0, 1000.0, 36000.0]  # (0 km: sea level is an altitude, not "no altitude given"; 12 km: a detector inside the band of decay altitudes, decays below and above it)
    evs = kernel_events(tier)
    results = par.pmap(_kernel_eval, [(h, evs) for h in heights])
    v = judge_kernel(evs, heights, results)
    ctx.tick(len(evs) * len(heights))
    for h in heights:
        for (b, a, E), (d, ang) in zip(evs, results[heights.index(h)]):
            ctx.sigs.add(("k", h, d > 0))
    ctx.cov["kernel_events"] = len(evs) * len(heights)
    for c, key, e, o in v[:40]:
        ctx.violation(c, {"kind": "kernel", "h": key[0], "b": key[1], "a": key[2], "E": key[3]}, e, o)
    i = int(ctx.rng.integers(len(evs)))
    ctx.sample({"kind": "kernel", "event(beta_rad,alt_km,E_100PeV)": evs[i], "density_525km": results[3][i][0], "density_33km": results[0][i][0], "angle_deg": results[3][i][1]})


def replay(case):
    if isinstance(case, dict) and case.get("kind") == "pipeline":
        from .. import pipeline

        return pipeline.replay(case)
    k = case["kind"]
    if k == "large_batch":
        return judge_large_batch(case["h"], case["n"])
    if k == "wrap":
        return judge_wrapper(case["area"], case["qe"], case["thr"], [tuple(e) for e in case["events"]], tuple(case.get("forms", ("f8", "f8", "f8"))))
    if k == "whist":
        v, _ = judge_wrapper_history(2.5, 0.2, 10.0)
        return [(c, e, o) for c, seq, e, o in v if seq == case["seq"]]
    if k == "wreal":
        return judge_wrapper_real(case["order"])
    if k == "wscan":
        return [(c, e, o) for c, sq, e, o in judge_wrapper_config_scan(tuple(case["seq"]))]
    if k == "mono":
        return judge_monotone(case["area"], case["qe"], case["thr"], case["ang"])
    if k == "kernel":
        ev = [(case["b"], case["a"], case["E"])]
        hs = [case["h"], 525.0] if case["h"] != 525.0 else [525.0]
        res = [_kernel_eval((h, ev)) for h in hs]
        return [(c, e, o) for c, key, e, o in judge_kernel(ev, hs, res)]
    return []
