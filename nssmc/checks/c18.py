"""C18 — gridded lookup tables: loss-free files, exact slicing, row interpolation, sound shipped data."""

import itertools
import os
import shutil
import tempfile

import numpy as np

PID = "C18"
LEVEL = "exploration"
RULE = (
    "small-scope exhaustive enumeration: (a) every grid shape with 1..k axes of length 1..3 x dtype {f4,f8,i2,i4,i8} "
    "x rotating axis-name alphabet x {hdf5,fits} written and read back; (b) every axis/node/mid-point/quarter-point "
    "slice of synthetic grids and of shipped tables; (c) vec_1d_interp on EVERY non-decreasing row of length <= n over "
    "{0,1/4,1/2,3/4,1} with every node-value/mid-point query strictly inside the row range, as single rows, all ordered "
    "pairs (and triples in thorough) and one concatenated batch; (d) every node of every shipped table. Distinct by "
    "(part, shape/dtype/format | axis,position class | row pattern,query class | table,version)."
)
ASSUMPTIONS = [
    "axis names containing '/' or non-ASCII are outside the alphabet (HDF5 path separator, FITS keyword character set)",
    "FITS stores big-endian: dtype equality is judged on kind and item size",
]

MTAU = 1.77686
NAMES = ["a", "log_e_nu", "Beta Rad", "x_1", "AXIS0", "n" * 60, "e_tau", "E_tau", "x", "X"]
DTYPES = ["f4", "f8", "i2", "i4", "i8"]


def mk_grid(shape, dtype, name_off):
    from nuspacesim.utils.grid import NssGrid

    n = int(np.prod(shape))
    base = (np.arange(n, dtype=np.float64) * 37.0 + 11.0) % 101.0 - 50.0
    if dtype.startswith("f"):
        data = (base / 7.0).astype(dtype)
    else:
        data = base.astype(dtype)
    data = data.reshape(shape)
    axes = []
    for k, ln in enumerate(shape):
        if k % 2 == 0:
            axes.append(np.array([0.1, 1.0 / 3.0, 2.5][:ln]) * (k + 1) + k)
        else:
            axes.append(np.arange(ln, dtype=np.int64) * 3 - 1)
    names = [NAMES[(name_off + k) % len(NAMES)] for k in range(len(shape))]
    return NssGrid(data, axes, names)


def judge_io(shape, dtype, name_off, fmt, tmpdir):
    g = mk_grid(tuple(shape), dtype, name_off)
    fn = os.path.join(tmpdir, f"g_{'x'.join(map(str, shape))}_{dtype}_{name_off}.{'h5' if fmt == 'hdf5' else 'fits'}")
    return _io_roundtrip(g, fn, fmt)


DERIVED = [("slice", 0, 0.5), ("slice", 0, 0.3), ("slice", 1, 0.25), ("slice", 1, 5.0), ("slice", 2, 4.0), ("slice", 2, 3.0),
           ("slice2", 0, 0.3, 0, 0.1), ("slice2", 0, 0.3, 1, 3.0), ("slice2", 1, 5.0, 0, 0.5), ("slice2", 2, 3.0, 0, 1.0), ("slice2", 1, 0.25, 1, 2.0),
           ("reread",), ("reread_slice", 0, 0.3), ("reread_slice", 1, 5.0),
           # a grid built FROM another grid under new axis names: the child carries the new names, the parent (alive, written
           # afterwards) still its own
           ("relabel_child",), ("relabel_parent",), ("copy_parent",)]


def judge_derived_io(how, fmt, tmpdir):
    """a grid OBTAINED from another grid (a slice along any axis, a slice of a slice, a grid read back from a file, a
    slice of such a grid) is written and read back unchanged, names included"""
    from nuspacesim.utils.grid import NssGrid
    from nuspacesim.utils.interp import grid_slice_interp

    ext = "h5" if fmt == "hdf5" else "fits"
    g = slice_grid("synthetic_f8")
    tag = "_".join(str(x) for x in how).replace(".", "p")
    try:
        if how[0] in ("reread", "reread_slice"):
            f0 = os.path.join(tmpdir, f"d0_{tag}.{ext}")
            if os.path.exists(f0):
                os.remove(f0)
            g.write(f0, format=fmt)
            g = NssGrid.read(f0, format=fmt)
            os.remove(f0)
        if how[0] in ("relabel_child", "relabel_parent"):
            child = NssGrid(g, [a.copy() for a in g.axes], ["u", "v w", "x"])
            g = child if how[0] == "relabel_child" else g
        if how[0] == "copy_parent":
            import copy

            c2 = copy.deepcopy(g)
            c2.meta["AXIS0"] = "zzz"  # editing the copy's header dictionary is the copy's business
        if how[0] in ("slice", "slice2", "reread_slice"):
            g = grid_slice_interp(g, how[2], how[1])
        if how[0] == "slice2":
            g = grid_slice_interp(g, how[4], how[3])
    except Exception as ex:
        return [("io_roundtrip", f"the derived grid {how}", f"{type(ex).__name__}: {str(ex)[:80]}")]
    return _io_roundtrip(g, os.path.join(tmpdir, f"d_{tag}.{ext}"), fmt)


def _io_roundtrip(g, fn, fmt):
    from nuspacesim.utils.grid import NssGrid

    if os.path.exists(fn):
        os.remove(fn)
    out = []
    try:
        g.write(fn, format=fmt)
        r = NssGrid.read(fn, format=fmt)
    except Exception as ex:
        return [("io_roundtrip", "read(write(g)) == g", f"{type(ex).__name__}: {ex}")]
    finally:
        pass
    if list(r.axis_names) != list(g.axis_names):
        out.append(("io_names", list(g.axis_names), list(r.axis_names)))
    if r.data.shape != g.data.shape or not np.array_equal(np.asarray(r.data), np.asarray(g.data)):
        out.append(("io_data", "equal data", "differs"))
    rd, gd = np.asarray(r.data).dtype, np.asarray(g.data).dtype
    if (rd.kind, rd.itemsize) != (gd.kind, gd.itemsize):
        out.append(("io_dtype", str(gd), str(rd)))
    if len(r.axes) != len(g.axes):
        out.append(("io_axes", len(g.axes), len(r.axes)))
    else:
        for k, (ra, ga) in enumerate(zip(r.axes, g.axes)):
            ra, ga = np.asarray(ra), np.asarray(ga)
            if ra.shape != ga.shape or not np.array_equal(ra, ga) or ra.dtype.kind != ga.dtype.kind:
                out.append(("io_axes", f"axis {k} {ga.tolist()}", f"{ra.tolist()}"))
    try:
        if not out and not (r == g):
            out.append(("io_eq", True, False))
    except Exception as ex:
        out.append(("io_eq", True, f"{type(ex).__name__}"))
    try:
        os.remove(fn)
    except OSError:
        pass
    return out


def judge_io_overwrite(shape, dt_first, dt_second, fmt, tmpdir):
    """write grid A, then grid B (same shape, other dtype/values) to the SAME file with overwrite=True: read == B"""
    from nuspacesim.utils.grid import NssGrid

    a = mk_grid(tuple(shape), dt_first, 0)
    b = mk_grid(tuple(shape), dt_second, 0)
    b = NssGrid(np.asarray(b.data) + (0.25 if dt_second.startswith("f") else 1), b.axes, b.axis_names)
    fn = os.path.join(tmpdir, f"ow_{dt_first}_{dt_second}.{'h5' if fmt == 'hdf5' else 'fits'}")
    if os.path.exists(fn):
        os.remove(fn)
    try:
        a.write(fn, format=fmt)
        b.write(fn, format=fmt, overwrite=True)
        r = NssGrid.read(fn, format=fmt)
    except Exception as ex:
        return [("io_overwrite", "read(write(b, overwrite)) == b", f"{type(ex).__name__}: {str(ex)[:100]}")]
    out = []
    rd, bd = np.asarray(r.data), np.asarray(b.data)
    if rd.shape != bd.shape or not np.array_equal(rd, bd) or (rd.dtype.kind, rd.dtype.itemsize) != (bd.dtype.kind, bd.dtype.itemsize):
        out.append(("io_overwrite", f"{bd.dtype} data of the second grid", f"{rd.dtype}, equal={np.array_equal(rd, bd) if rd.shape == bd.shape else False}"))
    return out


H5_GRIDS = [((2, 3), "f8", 0), ((3,), "i4", 2), ((2, 2, 3), "f4", 4)]
H5_PATHS = ["/", "/p", "/q/r"]
H5_OVERWRITE = [None, True, False]


def h5_ops(tier):
    return [(g, p, o) for g in range(len(H5_GRIDS) if tier == "thorough" else 2) for p in range(len(H5_PATHS)) for o in range(len(H5_OVERWRITE))]


def _grid_equal(r, g):
    rd, gd = np.asarray(r.data), np.asarray(g.data)
    if rd.shape != gd.shape or not np.array_equal(rd, gd) or (rd.dtype.kind, rd.dtype.itemsize) != (gd.dtype.kind, gd.dtype.itemsize):
        return False
    if list(r.axis_names) != list(g.axis_names) or len(r.axes) != len(g.axes):
        return False
    return all(np.array_equal(np.asarray(a), np.asarray(b)) for a, b in zip(r.axes, g.axes))


def judge_h5_history(seq, tmpdir):
    """a sequence of writes of several grids to several PATHS of one HDF5 file (as data/make_nu2tau.py does), against a
    reference model {path: grid}: a write that succeeds replaces that path's entry only, a write that raises changes
    nothing; after EVERY step every stored path reads back equal to the model. overwrite=True must always succeed and a
    plain write to a path that holds no grid must succeed."""
    from nuspacesim.utils.grid import NssGrid

    fn = os.path.join(tmpdir, "hist_" + "_".join("%d%d%d" % op for op in seq) + ".h5")
    if os.path.exists(fn):
        os.remove(fn)
    model = {}
    for step, (gi, pi, oi) in enumerate(seq):
        g = mk_grid(*H5_GRIDS[gi][:2], H5_GRIDS[gi][2])
        # (data AND bin values change from write to write: same names, shapes and dtypes, other numbers)
        g = NssGrid(np.asarray(g.data) + np.asarray(step, dtype=g.data.dtype), [np.asarray(a) + np.asarray(step, dtype=np.asarray(a).dtype) for a in g.axes], g.axis_names)
        path, ow = H5_PATHS[pi], H5_OVERWRITE[oi]
        kw = {} if ow is None else {"overwrite": ow}
        must = ow is True or (ow is None and path not in model) or (ow is False and not model)
        try:
            g.write(fn, format="hdf5", path=path, **kw)
            model[path] = g
        except Exception as ex:
            if must:
                return [("io_history_write_accepted", f"step {step}: write(path={path!r}, overwrite={ow}) succeeds with {sorted(model)} stored", f"{type(ex).__name__}: {str(ex)[:80]}")]
        for q, want in model.items():
            try:
                r = NssGrid.read(fn, format="hdf5", path=q)
            except Exception as ex:
                return [("io_history_read_back", f"after step {step} (write path={path!r}, overwrite={ow}): path {q!r} reads back", f"{type(ex).__name__}: {str(ex)[:80]}")]
            if not _grid_equal(r, want):
                return [("io_history_read_back", f"after step {step} (write path={path!r}, overwrite={ow}): path {q!r} equals what was last written there", "differs")]
    if os.path.exists(fn):
        os.remove(fn)
    return []


def slice_grid(which):
    from importlib.resources import files

    from nuspacesim.utils.grid import NssGrid

    if which == "synthetic_f8":
        shape = (3, 4, 5)
        n = int(np.prod(shape))
        data = (((np.arange(n) * 37.0 + 11.0) % 101.0 - 50.0) / 7.0).reshape(shape)
        axes = [np.array([0.0, 0.5, 2.0]), np.array([-1.0, 0.0, 0.25, 10.0]), np.array([1.0, 2.0, 4.0, 8.0, 16.0])]
        return NssGrid(data, axes, ["p", "q r", "s"])
    if which == "synthetic_offset":
        # coordinates that are large compared with their spacing (radii in metres, times in seconds)
        return NssGrid(np.arange(6 * 3, dtype=np.float64).reshape(6, 3) ** 2, [6371000.0 + 25.0 * np.arange(6), np.array([0.0, 1.0, 2.0])], ["r", "k"])
    if which == "synthetic_i8":
        return NssGrid(np.arange(8 * 16).reshape(8, 16), [np.arange(8) * 1.0, np.arange(16) * 2.0], ["x", "y"])
    kind, ver = which.split(".")
    return NssGrid.read(files("nuspacesim.data.nupyprop_tables") / f"nu2tau_{kind}.{ver}.h5", path="/", format="hdf5")


def judge_slice(which, axis, by_name, value):
    from nuspacesim.utils.interp import grid_slice_interp

    g = slice_grid(which)
    ax = g.axes[axis]
    data = np.asarray(g.data, dtype=np.float64)
    i = int(np.searchsorted(ax, value, side="right") - 1)
    i = min(max(i, 0), len(ax) - 2)
    t = (value - ax[i]) / (ax[i + 1] - ax[i])
    lo = np.take(data, i, axis=axis)
    hi = np.take(data, i + 1, axis=axis)
    if value == ax[i]:
        ref = lo
    elif value == ax[i + 1]:
        ref = hi
    else:
        ref = (1 - t) * lo + t * hi
    try:
        s = grid_slice_interp(g, value, g.axis_names[axis] if by_name else axis)
    except Exception as ex:
        return [("slice", "a sub-grid", f"{type(ex).__name__}: {ex}")]
    out = []
    got = np.asarray(s.data, dtype=np.float64)
    if got.shape != ref.shape:
        return [("slice_shape", ref.shape, got.shape)]
    tol = 4 * np.finfo(float).eps * np.maximum(np.maximum(np.abs(lo), np.abs(hi)), 1e-300)
    if value == ax[i] or value == ax[i + 1]:
        tol = tol / 4
    bad = ~(np.abs(got - ref) <= tol)
    if bad.any():
        j = tuple(int(v[0]) for v in np.where(bad))
        out.append(("slice_value", float(ref[j]), float(got[j])))
    exp_names = [n for k, n in enumerate(g.axis_names) if k != axis]
    if list(s.axis_names) != exp_names:
        out.append(("slice_names", exp_names, list(s.axis_names)))
    exp_axes = [a for k, a in enumerate(g.axes) if k != axis]
    if len(s.axes) != len(exp_axes) or any(not np.array_equal(a, b) for a, b in zip(s.axes, exp_axes)):
        out.append(("slice_axes", "remaining axes", "differ"))
    # the slice is the caller's: clamping / rescaling it in place (as invert_cdf_grid does with what it is given) leaves the
    # source grid as it was, and the same slice taken again is the first one
    # (only the slice's DATA is overwritten: the remaining axes are shared with the source grid on the unchanged tree, and
    # the property says nothing about them)
    keep = np.array(g.data, copy=True)
    got = got.copy()
    try:
        sd = np.asarray(s.data)
        if sd.flags.writeable:
            sd[...] = 7 if sd.dtype.kind != "f" else -7.25
    except Exception:
        pass
    if not np.array_equal(np.asarray(g.data), keep):
        out.append(("slice_is_a_copy", "the source grid's data unchanged after the caller overwrote the slice's data", "source grid changed"))
    else:
        try:
            s2 = grid_slice_interp(g, value, g.axis_names[axis] if by_name else axis)
            if not np.array_equal(np.asarray(s2.data, dtype=np.float64), got):
                out.append(("slice_is_a_copy", "the same slice again", "differs"))
        except Exception as ex:
            out.append(("slice_is_a_copy", "the same slice again", f"{type(ex).__name__}: {str(ex)[:60]}"))
    return out


VALS = [0.0, 0.25, 0.5, 0.75, 1.0]


def rows_of(n):
    return [np.array(c) for c in itertools.combinations_with_replacement(VALS, n) if c[0] < c[-1]]


def queries(row):
    u = np.unique(row)
    q = set()
    for v in u:
        if row[0] < v < row[-1]:
            q.add(float(v))
    for a, b in zip(u[:-1], u[1:]):
        q.add(float(0.5 * (a + b)))
        q.add(float(a + 0.25 * (b - a)))
    return sorted(x for x in q if row[0] < x < row[-1])


def ys_for(n):
    return np.array([1.0, 2.5, 3.0, 7.0, 11.5][:n])


def preimage(row, ys, x):
    """interval of y with F(y) = x for the piecewise-linear F through (ys, row)"""
    eq = np.where(row == x)[0]
    if len(eq):
        return ys[eq[0]], ys[eq[-1]]
    i = int(np.searchsorted(row, x, side="right") - 1)
    y = ys[i] + (x - row[i]) * (ys[i + 1] - ys[i]) / (row[i + 1] - row[i])
    return y, y


def judge_interp(rows, xs):
    """rows: list of rows (same length); xs: one query per row."""
    from nuspacesim.utils.interp import vec_1d_interp

    R = np.array(rows, dtype=np.float64)
    n = R.shape[1]
    ys = ys_for(n)
    x = np.array(xs, dtype=np.float64)
    R0, x0, ys0 = R.copy(), x.copy(), ys.copy()
    try:
        y = np.asarray(vec_1d_interp(R, ys, x))
    except Exception as ex:
        return [("interp", "one value per row", f"{type(ex).__name__}: {ex}")]
    out = []
    if y.shape != x.shape:
        return [("interp_shape", x.shape, y.shape)]
    for k in range(len(x)):
        lo, hi = preimage(R[k], ys, x[k])
        tol = 4 * np.finfo(float).eps * max(abs(lo), abs(hi))
        if not (lo - tol <= y[k] <= hi + tol):
            out.append(("interp_value", [float(lo), float(hi)], float(y[k])))
            break
    if R.tobytes() != R0.tobytes() or x.tobytes() != x0.tobytes() or ys.tobytes() != ys0.tobytes():
        out.append(("interp_inputs_unmodified", "unchanged", "changed"))
    return out


def shipped():
    from importlib.resources import files

    from nuspacesim.utils.grid import NssGrid

    out = []
    for v in (1, 2, 3):
        out.append((f"nupyprop.{v}", files("nuspacesim.data.nupyprop_tables") / f"nu2tau_cdf.{v}.h5", files("nuspacesim.data.nupyprop_tables") / f"nu2tau_pexit.{v}.h5"))
    base = files("nuspacesim.data") / "nuleptonsim_tables"
    out.append(("nuleptonsim.0", base / "nu2tau_cdf.0.h5", base / "nu2tau_pexit.0.h5"))
    return out


def judge_shipped(name, cdf_path, pexit_path, only_row=None):
    from nuspacesim.utils.grid import NssGrid

    out = []
    cdf = NssGrid.read(cdf_path, path="/", format="hdf5")
    pe = NssGrid.read(pexit_path, path="/", format="hdf5")
    n = 0
    for g, gn in ((cdf, "cdf"), (pe, "pexit")):
        for ax, an in zip(g.axes, g.axis_names):
            n += len(ax)
            if not np.all(np.diff(ax) > 0):
                out.append(("axes_increasing", f"{gn}.{an} strictly increasing", "not"))
    names = cdf.axis_names
    d = np.moveaxis(np.asarray(cdf.data), [names.index("log_e_nu"), names.index("beta_rad"), names.index("e_tau_frac")], [0, 1, 2])
    n += d.size
    if not np.all(np.diff(d, axis=-1) >= 0):
        out.append(("cdf_monotone", "non-decreasing rows", int((np.diff(d, axis=-1) < 0).sum())))
    for i, j in list(zip(*np.where(d[..., 0] != 0)))[:60]:
        if only_row is None or [int(i), int(j)] == list(only_row):
            out.append(("cdf_first_zero", 0.0, float(d[i, j, 0]), [int(i), int(j)]))
    if not np.all(np.abs(d[..., -1] - 1) <= 1e-15):
        out.append(("cdf_last_one", "|last-1|<=1e-15", float(np.abs(d[..., -1] - 1).max())))
    p = np.asarray(pe.data)
    n += p.size
    if not np.all(p <= 1):
        out.append(("pexit_le_1", "<=1", float(p.max())))
    if not np.all(np.isfinite(p)) or not np.all(np.isfinite(d)):
        out.append(("finite", "finite tables", "non-finite entry"))
    z = cdf["e_tau_frac"]
    le = cdf["log_e_nu"]
    lastzero = (d <= d[..., :1]).sum(axis=-1) - 1
    emin = float((z[lastzero] * (10.0 ** le)[:, None]).min())
    if not (emin > MTAU):
        out.append(("min_tau_energy", f">{MTAU}", emin))
    if not np.all(z <= 1.0) or not np.all(z > 0):
        out.append(("z_range", "(0,1]", [float(z.min()), float(z.max())]))
    return out, n, emin


def run(ctx):
    tier = ctx.tier
    tmp = tempfile.mkdtemp(prefix="nssmc_c18_")
    try:
        # (a) IO round trip
        kmax = 3 if tier == "quick" else 4
        shapes = [s for k in range(1, kmax + 1) for s in itertools.product((1, 2, 3), repeat=k)]
        n_io = 0
        for si, shape in enumerate(shapes):
            for di, dt in enumerate(DTYPES):
                for fmt in ("hdf5", "fits"):
                    off = (si + di) % len(NAMES)
                    v = judge_io(shape, dt, off, fmt, tmp)
                    n_io += 1
                    ctx.tick(1, ("io", len(shape), dt, fmt, off))
                    for c, e, o in v:
                        ctx.violation(c, {"kind": "io", "shape": list(shape), "dtype": dt, "name_off": off, "fmt": fmt}, e, o)
        # names that collide case-insensitively, both formats, equal and different lengths
        for shape in [(2, 2), (2, 3), (3, 3, 3)]:
            for off in (6, 8):
                for fmt in ("hdf5", "fits"):
                    v = judge_io(shape, "f8", off, fmt, tmp)
                    n_io += 1
                    ctx.tick(1, ("io_case", shape, off, fmt))
                    for c, e, o in v:
                        ctx.violation(c, {"kind": "io", "shape": list(shape), "dtype": "f8", "name_off": off, "fmt": fmt}, e, o)
        for shape in [(3,), (2, 3)]:
            for d1, d2 in itertools.permutations(DTYPES, 2):
                for fmt in ("hdf5", "fits"):
                    v = judge_io_overwrite(shape, d1, d2, fmt, tmp)
                    n_io += 1
                    ctx.tick(1, ("io_overwrite", len(shape), d1, d2, fmt))
                    for c, e, o in v:
                        ctx.violation(c, {"kind": "io_ow", "shape": list(shape), "d1": d1, "d2": d2, "fmt": fmt}, e, o)
        # E2: every sequence of writes (grid x path x overwrite mode) up to the depth of the tier into ONE hdf5 file
        depth = 2 if tier == "quick" else 3
        ops = h5_ops(tier)
        n_h = 0
        for d in range(1, depth + 1):
            for seq in itertools.product(ops, repeat=d):
                n_h += 1
                ctx.tick(1, ("h5_history", d, tuple(o[1:] for o in seq)))
                for c, e, o in judge_h5_history(seq, tmp):
                    ctx.violation(c, {"kind": "h5_hist", "seq": [list(x) for x in seq]}, e, o)
        ctx.cov["hdf5_multi_path_write_histories"] = n_h
        for how in DERIVED:
            for fmt in ("hdf5", "fits"):
                n_io += 1
                ctx.tick(1, ("derived_io", how[0], fmt))
                for c, e, o in judge_derived_io(how, fmt, tmp):
                    ctx.violation(c, {"kind": "derived_io", "how": list(how), "fmt": fmt}, e, o)
        ctx.cov["io_roundtrips"] = n_io
        ctx.sample({"kind": "io", "shape": [2, 3], "dtype": "i2", "names": [NAMES[2], NAMES[3]], "fmt": "fits"})
        # (b) slicing
        whichs = ["synthetic_f8", "synthetic_i8", "synthetic_offset", "cdf.3", "pexit.3"] + (["cdf.1", "cdf.2", "pexit.1", "pexit.2"] if tier == "thorough" else [])
        n_sl = 0
        for w in whichs:
            g = slice_grid(w)
            for axis in range(len(g.axes)):
                ax = g.axes[axis]
                pts = []
                for i in range(len(ax)):
                    pts.append((float(ax[i]), "node"))
                    for near in (float(ax[i]) * (1 + 3e-6), float(ax[i]) * (1 - 3e-6)):
                        # a coordinate a few parts per million away from a node is not the node
                        if ax[0] < near < ax[-1] and near not in ax:
                            pts.append((near, "near_node"))
                    if i + 1 < len(ax):
                        pts.append((float(0.5 * (ax[i] + ax[i + 1])), "mid"))
                        pts.append((float(ax[i] + 0.25 * (ax[i + 1] - ax[i])), "quarter"))
                        if tier == "thorough":
                            pts.append((float(np.nextafter(ax[i + 1], -np.inf)), "below_node"))
                            pts.append((float(np.nextafter(ax[i], np.inf)), "above_node"))
                if w.startswith(("cdf", "pexit")) and tier == "quick" and len(ax) > 30:
                    pts = pts[:: 3] + pts[-1:]
                for val, cls in pts:
                    for by_name in (False, True):
                        v = judge_slice(w, axis, by_name, val)
                        n_sl += 1
                        ctx.tick(1, ("slice", w, axis, cls, by_name))
                        for c, e, o in v:
                            ctx.violation(c, {"kind": "slice", "which": w, "axis": axis, "by_name": by_name, "value": val}, e, o)
        ctx.cov["slices"] = n_sl
        ctx.sample({"kind": "slice", "which": "cdf.3", "axis": 0, "value": 6.125})
        # (c) vec_1d_interp
        nmax = 4 if tier == "quick" else 5
        n_int = 0
        for n in range(2, nmax + 1):
            rows = rows_of(n)
            items = [(r, q) for r in rows for q in queries(r)]
            for r, q in items:
                v = judge_interp([r], [q])
                n_int += 1
                ctx.tick(1, ("interp1", n, tuple(np.diff(r) == 0), bool(np.any(r == q))))
                for c, e, o in v:
                    ctx.violation(c, {"kind": "interp", "rows": [r.tolist()], "xs": [q]}, e, o)
            # all ordered pairs
            pair_n = n if (tier == "thorough" or n <= 3) else 0
            if pair_n:
                for (r1, q1), (r2, q2) in itertools.product(items, items):
                    v = judge_interp([r1, r2], [q1, q2])
                    n_int += 1
                    for c, e, o in v:
                        ctx.violation(c, {"kind": "interp", "rows": [r1.tolist(), r2.tolist()], "xs": [q1, q2]}, e, o)
                ctx.tick(len(items) ** 2, ("interp2", n))
            if tier == "thorough" and n <= 3:
                for trip in itertools.product(items, repeat=3):
                    v = judge_interp([t[0] for t in trip], [t[1] for t in trip])
                    n_int += 1
                    for c, e, o in v:
                        ctx.violation(c, {"kind": "interp", "rows": [t[0].tolist() for t in trip], "xs": [t[1] for t in trip]}, e, o)
                ctx.tick(len(items) ** 3, ("interp3", n))
            # one concatenated batch, forward and reversed
            for order in (1, -1):
                it2 = items[::order]
                v = judge_interp([r for r, _ in it2], [q for _, q in it2])
                n_int += 1
                ctx.tick(len(it2), ("interp_all", n, order))
                for c, e, o in v:
                    ctx.violation(c, {"kind": "interp", "rows": [r.tolist() for r, _ in it2], "xs": [q for _, q in it2]}, e, o)
        # rows whose neighbouring nodes are distinct but extremely close (thin CDF tails, CDFs saturating towards 1):
        # every non-decreasing row of length <= 4 over a second value alphabet, every strictly interior query
        vals2 = [0.0, 1e-14, 2.5e-9, 0.5, 1 - 1e-9, 1 - 1e-13, 1.0]
        for n in (2, 3, 4):
            rows2 = [np.array(c) for c in itertools.combinations_with_replacement(vals2, n) if c[0] < c[-1]]
            for r in rows2:
                for q in queries(r):
                    v = judge_interp([r], [q])
                    n_int += 1
                    for c, e, o in v:
                        ctx.violation(c, {"kind": "interp", "rows": [r.tolist()], "xs": [q]}, e, o)
            ctx.tick(len(rows2), ("interp_close_nodes", n))
        ctx.cov["interp_calls"] = n_int
        ctx.sample({"kind": "interp", "rows": [[0.0, 0.25, 0.25, 1.0]], "xs": [0.25], "ys": ys_for(4).tolist()})
        # (d) shipped data
        emins = {}
        for name, cp, pp in shipped():
            v, n, emin = judge_shipped(name, cp, pp)
            emins[name] = emin
            ctx.tick(n, ("shipped", name))
            for c, e, o, *row in v:
                case = {"kind": "shipped", "name": name}
                if row:
                    case["row"] = f"{row[0][0]},{row[0][1]}"
                ctx.violation(c, case, e, o)
        ctx.cov["smallest_reachable_tau_energy_GeV"] = emins
    finally:
        shutil.rmtree(tmp, ignore_errors=True)


def replay(case):
    k = case["kind"]
    if k == "io":
        tmp = tempfile.mkdtemp(prefix="nssmc_c18r_")
        try:
            return judge_io(tuple(case["shape"]), case["dtype"], case["name_off"], case["fmt"], tmp)
        finally:
            shutil.rmtree(tmp, ignore_errors=True)
    if k == "io_ow":
        tmp = tempfile.mkdtemp(prefix="nssmc_c18r_")
        try:
            return judge_io_overwrite(tuple(case["shape"]), case["d1"], case["d2"], case["fmt"], tmp)
        finally:
            shutil.rmtree(tmp, ignore_errors=True)
    if k == "h5_hist":
        tmp = tempfile.mkdtemp(prefix="nssmc_c18r_")
        try:
            return judge_h5_history([tuple(x) for x in case["seq"]], tmp)
        finally:
            shutil.rmtree(tmp, ignore_errors=True)
    if k == "derived_io":

        with tempfile.TemporaryDirectory(prefix="nssmc_c18r_") as td:
            return judge_derived_io(tuple(case["how"]), case["fmt"], td)
    if k == "slice":
        return judge_slice(case["which"], case["axis"], case["by_name"], case["value"])
    if k == "interp":
        return judge_interp([np.array(r) for r in case["rows"]], case["xs"])
    if k == "shipped":
        for name, cp, pp in shipped():
            if name == case["name"]:
                row = [int(t) for t in case["row"].split(",")] if "row" in case else None
                return [(c, e, o) for c, e, o, *_ in judge_shipped(name, cp, pp, row)[0] if (c == "cdf_first_zero") == (row is not None)]
    return []
