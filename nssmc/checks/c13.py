"""C13 — target-mode geometry and the dark-sky cut (E1 over source/time/detector configurations)."""

import itertools
import math
import warnings

import numpy as np

from .. import par, sim
from ..ref import too_ref as TR

PID = "C13"
LEVEL = "exploration"
RULE = (
    "full product of configuration alphabets: RA x Dec x start date x duration x N x detector (lat,long) x altitude x "
    "angle_from_limb; the time-grid clause additionally for EVERY N in 1..256 x 3 durations. For the dark-sky logic the "
    "three thresholds are placed relative to the ACTUAL sun altitude / moon altitude / phase angle at a chosen instant "
    "(value +- delta) so that all 2^3 truth assignments occur, with the reference values computed on an independent "
    "vector path; batch evaluation is compared element-wise with single-instant evaluation; the cut's effect on both "
    "channels is checked through the real mcintegral. Distinct by (configuration, kept/horizon-cut/volume-cut, which cut "
    "binds (42 deg or limb), truth assignment)."
)
ASSUMPTIONS = [
    "Sun, Moon and source positions come from astropy on both sides (different transformation paths, same ephemeris); the check decides the logic nuSpaceSim builds on top",
    "independent nadir path (ICRS->ITRS dotted with the geodetic up vector) agrees with AltAz to ~1e-5 rad: tolerance 5e-5 rad with an either-side band of that width at both cuts",
]

BAND = 5e-5


def _iers():
    from astropy.utils import iers

    iers.conf.auto_download = False
    iers.conf.auto_max_age = None


def mk(ra, dec, date, T, N, lat, lon, alt, limb_deg, sm=None):
    extra = {
        "simulation": {"angle_from_limb": math.radians(limb_deg), "target": {"source_RA": ra, "source_DEC": dec, "source_date": date, "source_obst": T}},
    }
    if sm is not None:
        extra["detector"] = {"sun_moon": sm}
    return sim.make_config(mode="Target", n=N, altitude=alt, det_lat=lat, det_long=lon, extra=extra)


def judge_geometry(p):
    """p: dict(ra, dec, date, T, N, lat, lon, alt, limb)"""
    from astropy.time import Time

    from nuspacesim.simulation.geometry.region_geometry import RegionGeomToO

    _iers()
    cfg = mk(p["ra"], p["dec"], p["date"], p["T"], p["N"], p["lat"], p["lon"], p["alt"], p["limb"])
    out = []
    with warnings.catch_warnings():
        warnings.simplefilter("ignore")
        g = RegionGeomToO(cfg)
        try:
            res = g(p["N"])
        except Exception as ex:
            return [("no_exception", "geometry", f"{type(ex).__name__}: {ex}")], {}
        beta, theta, L, vt = res
        t0 = Time(p["date"], format="isot", scale="utc")
        N = p["N"]
        times = g.times
        if len(times) != N:
            out.append(("time_grid_length", N, len(times)))
            return out, {}
        off = (times - t0).sec
        exp = np.arange(N) * (p["T"] / N)
        if not np.all(np.abs(off - exp) <= 1e-6):
            out.append(("time_grid_spacing", exp[:4].tolist(), off[:4].tolist()))
        if not np.all((off >= -1e-6) & (off < p["T"] - 1e-7)):
            out.append(("time_grid_covers_half_open_interval", [0, p["T"]], [float(off.min()), float(off.max())]))
        # independent nadir angle
        alt_ref = TR.source_altitude(p["ra"], p["dec"], times, p["lat"], p["lon"])
        nadir_ref = 0.5 * np.pi + alt_ref
        aH = TR.horizon_nadir(p["alt"])
        blim = TR.beta_limit(p["alt"], math.radians(p["limb"]))
        c = TR.R + p["alt"]
        with np.errstate(all="ignore"):
            beta_ref = np.arccos(np.clip(c / TR.R * np.sin(nadir_ref), -1, 1))
        below = nadir_ref < aH
        keep_ref = below & (beta_ref < blim)
        # sensitivity of beta to the nadir angle near the horizon is large: band in beta from the band in nadir
        with np.errstate(all="ignore"):
            dbeta = np.abs(np.arccos(np.clip(c / TR.R * np.sin(nadir_ref + BAND), -1, 1)) - np.arccos(np.clip(c / TR.R * np.sin(nadir_ref - BAND), -1, 1)))
        dbeta = np.where(np.isfinite(dbeta), dbeta, np.inf)
        band = (np.abs(nadir_ref - aH) < BAND) | (below & (np.abs(beta_ref - blim) < dbeta + 1e-9))
        kept = np.zeros(N, dtype=bool)
        # which instants were kept: val_times are a subset of times
        vt_off = np.round((vt - t0).sec, 6) if len(vt) else np.array([])
        kept = np.isin(np.round(off, 6), vt_off)
        if len(vt) != kept.sum():
            out.append(("kept_times_subset_of_grid", int(kept.sum()), len(vt)))
        bad = (kept != keep_ref) & ~band
        for i in np.where(bad)[0][:3]:
            out.append(("kept_iff_occulted_and_below_limit", bool(keep_ref[i]), bool(kept[i])))
        if not (len(beta) == len(theta) == len(L) == len(vt)):
            out.append(("aligned_outputs", len(vt), [len(beta), len(theta), len(L)]))
            return out, {}
        if len(vt):
            th = np.asarray(theta, dtype=float)
            be = np.asarray(beta, dtype=float)
            Lp = np.asarray(L, dtype=float)
            # nadir angle agrees with the independent path
            nr = nadir_ref[kept] if kept.sum() == len(th) else None
            if nr is not None and not np.all(np.abs(th - nr) <= BAND):
                i = int(np.argmax(np.abs(th - nr)))
                out.append(("nadir_angle_independent_path", float(nr[i]), float(th[i])))
            r1, r2 = TR.triangle(p["alt"], th, be, Lp)
            if not np.all(np.abs(r1) <= 1e-8 * TR.R):
                out.append(("triangle_spot_on_surface", 0.0, float(np.max(np.abs(r1)))))
            if not np.all(np.abs(r2) <= 1e-9):
                out.append(("triangle_emergence_angle", 0.0, float(np.max(np.abs(r2)))))
            # the path length RELATIVE to itself, from the cancellation-free form of the same triangle (law of sines):
            # for a detector near the ground the paths are short compared with the Earth's radius, and a form that
            # subtracts squares of order R^2 is off by R^2 eps / L^2
            with np.errstate(all="ignore"):
                L_ref = (TR.R + p["alt"]) * np.cos(th + be) / np.cos(be)
            okl = np.isfinite(L_ref) & (L_ref > 0)
            if okl.any() and not np.all(np.abs(Lp[okl] - L_ref[okl]) <= 1e-8 * L_ref[okl]):
                i = int(np.argmax(np.where(okl, np.abs(Lp - L_ref) / np.where(okl, L_ref, 1.0), 0.0)))
                out.append(("triangle_path_length", float(L_ref[i]), float(Lp[i])))
            if not np.all((be >= 0) & (be < blim + 1e-12) & (th < aH + 1e-12)):
                out.append(("kept_within_limits", [blim, aH], [float(be.max()), float(th.max())]))
    info = dict(n_kept=int(len(vt)), n_below=int(below.sum()), binds="42" if blim >= math.radians(42.0) - 1e-12 else "limb")
    return out, info


def judge_timegrid(N, T):
    from astropy.time import Time

    from nuspacesim.simulation.geometry.region_geometry import RegionGeomToO

    _iers()
    cfg = mk(1.0, 0.2, "2022-06-02T01:00:00", T, N, 0.0, 0.0, 525.0, 7.0)
    g = RegionGeomToO(cfg)
    t = g.generate_times(N)
    t0 = Time("2022-06-02T01:00:00", format="isot", scale="utc")
    if len(t) != N:
        return [("time_grid_length", N, len(t))]
    off = (t - t0).sec
    exp = np.arange(N) * (T / N)
    if not np.all(np.abs(off - exp) <= 1e-6):
        return [("time_grid_spacing", exp[-2:].tolist(), off[-2:].tolist())]
    if not (off[0] >= -1e-9 and off[-1] < T - 1e-7):
        return [("time_grid_covers_half_open_interval", T, float(off[-1]))]
    return []


def actual_values(date, T, N, lat, lon, alt):
    from astropy.time import Time, TimeDelta

    _iers()
    t0 = Time(date, format="isot", scale="utc")
    times = t0 + TimeDelta(np.arange(N) * (T / N), format="sec")
    return times, TR.body_altitude("sun", times, lat, lon, alt), TR.body_altitude("moon", times, lat, lon, alt), TR.moon_phase(times)


def judge_darksky(q, single=True):
    """q: dict(date, T, N, lat, lon, alt, pivot (instant index), assign (3 bools), delta); single: also evaluate a few
    instants one at a time (left out in the multi-detector sequences, whose point is that nothing else is evaluated
    between two detectors)"""
    from nuspacesim.simulation.geometry.too import ToOEvent

    times, sun, moon, phase = actual_values(q["date"], q["T"], q["N"], q["lat"], q["lon"], q["alt"])
    k = q["pivot"]
    d = q["delta"]
    a_sun, a_moon, a_ph = q["assign"]
    # threshold placed so that at the pivot instant: (sun_alt < cut) == a_sun etc.
    sun_cut = sun[k] + d if a_sun else sun[k] - d
    moon_cut = moon[k] + d if a_moon else moon[k] - d
    ph_cut = phase[k] - d if a_ph else phase[k] + d
    if q.get("cuts") is not None:  # thresholds given outright (exact zeros among them) instead of placed at the pivot
        sun_cut, moon_cut, ph_cut = q["cuts"]
    cfg = mk(1.0, 0.2, q["date"], q["T"], q["N"], q["lat"], q["lon"], q["alt"], 7.0, sm={"sun_alt_cut": float(sun_cut), "moon_alt_cut": float(moon_cut), "moon_min_phase_angle_cut": float(ph_cut)})
    out = []
    with warnings.catch_warnings():
        warnings.simplefilter("ignore")
        ev = ToOEvent(cfg)
        got = np.asarray(ev.sun_moon_cut(times), dtype=bool)
        ref_s, ref_m, ref_p = sun < sun_cut, moon < moon_cut, phase > ph_cut
        ref = ref_s & (ref_m | ref_p)
        band = (np.abs(sun - sun_cut) < BAND) | (np.abs(moon - moon_cut) < BAND) | (np.abs(phase - ph_cut) < BAND)
        if got.shape != ref.shape:
            return [("darksky_shape", ref.shape, got.shape)], None
        bad = (got != ref) & ~band
        for i in np.where(bad)[0][:2]:
            out.append(("darksky_truth_table", f"instant {i}: sun={bool(ref_s[i])} moon_alt={bool(ref_m[i])} phase={bool(ref_p[i])} -> {bool(ref[i])}", bool(got[i])))
        # element-wise: batch == single-instant evaluation (the cut is evaluated at each event's own time)
        idxs = sorted(set([0, k, len(times) - 1, len(times) // 2])) if single else []
        for i in idxs:
            one = bool(np.asarray(ev.sun_moon_cut(times[i])))
            if one != bool(got[i]):
                out.append(("darksky_at_each_event_time", f"instant {i}: {one}", bool(got[i])))
                break
    sig = (bool(ref[k]), tuple(q["assign"]), int(ref.sum()) not in (0, len(ref)))
    return out, sig


REUSE_STEPS = [
    ("date", lambda c: setattr(c.simulation.target, "source_date", "2022-11-08T03:00:00")),
    ("ra_dec", lambda c: (setattr(c.simulation.target, "source_RA", 4.0), setattr(c.simulation.target, "source_DEC", 0.4))),
    ("position", lambda c: (setattr(c.detector.initial_position, "latitude", 0.6), setattr(c.detector.initial_position, "longitude", -2.0))),
    ("altitude", lambda c: setattr(c.detector.initial_position, "altitude", 33.0)),
    ("limb", lambda c: setattr(c.simulation, "angle_from_limb", math.radians(20.0))),
    ("cuts", lambda c: (setattr(c.detector.sun_moon, "sun_alt_cut", math.radians(5.0)), setattr(c.detector.sun_moon, "moon_min_phase_angle_cut", math.radians(30.0)))),
    ("obst", lambda c: setattr(c.simulation.target, "source_obst", 7200.5)),
]


def judge_config_reuse(seq):
    """ONE configuration object, edited in place between the constructions of several target-mode geometries (a scan
    over dates / sources / sites that re-uses its configuration): every geometry constructed after an edit is the
    geometry of a fresh configuration holding the same values -- instants, masks, angles, path lengths, dark-sky flags"""
    from nuspacesim.simulation.geometry.region_geometry import RegionGeomToO

    _iers()
    N = 24

    def obs(cfg):
        g = RegionGeomToO(cfg)
        b, th, L, vt = g(N)
        dark = np.asarray(g.too_source.sun_moon_cut(g.times), dtype=bool)
        return tuple(np.asarray(x, dtype=np.float64).tobytes() for x in (b, th, L, np.asarray(vt.jd1), np.asarray(vt.jd2), np.asarray(g.times.jd1), np.asarray(g.times.jd2))) + (dark.tobytes(),)

    with warnings.catch_warnings():
        warnings.simplefilter("ignore")
        # pass 1: what fresh configurations give
        want = []
        for k in range(len(seq) + 1):
            c = mk(1.0, -0.3, "2022-06-02T01:00:00", 86400.0, N, 0.1, 0.2, 525.0, 7.0)
            for si in seq[:k]:
                REUSE_STEPS[si][1](c)
            want.append(obs(type(c)(**c.model_dump())))
        # pass 2: the one live configuration
        c = mk(1.0, -0.3, "2022-06-02T01:00:00", 86400.0, N, 0.1, 0.2, 525.0, 7.0)
        for k in range(len(seq) + 1):
            if k:
                REUSE_STEPS[seq[k - 1]][1](c)
            got = obs(c)
            if got != want[k]:
                names = ["beta", "theta", "path length", "valid times", "valid times", "instants", "instants", "dark-sky flags"]
                bad = sorted(set(n for n, a, b in zip(names, got, want[k]) if a != b))
                return [("geometry_of_the_configuration_in_force", f"after in-place edits {[REUSE_STEPS[i][0] for i in seq[:k]]} of one configuration object: the geometry of a fresh configuration with these values", f"differs in {bad}")]
    return []


DETECTORS = [(0.0, 0.0, 525.0), (math.pi / 4, math.radians(100), 33.0), (-math.pi / 3, math.radians(-120), 400.0)]


def judge_darksky_sequence(order):
    """several detectors at different places evaluated one after another IN ONE PROCESS on bit-identical instants: each
    gets the Sun and Moon as seen from ITS position (anything memoised on the instants alone shows here)"""
    out = []
    for step, di in enumerate(order):
        la, lo, alt = DETECTORS[di]
        for date, T, N in (("2022-11-24T00:00:00", 86400.0, 24), ("2022-06-14T11:52:00", 86400.0, 12)):
            v, _ = judge_darksky(dict(date=date, T=T, N=N, lat=la, lon=lo, alt=alt, pivot=N // 2, assign=[True, True, True], delta=0.2), single=False)
            out += [(c, f"detector {di} (step {step} of {list(order)}), {date}: {e}", o) for c, e, o in v]
    return out


def judge_cut_effect(p, sm):
    """through the real mcintegral: radio bit-identical with cuts on/off; optical with cuts <= without; contribution i
    is zero iff the cut is false at val_times()[i]."""
    from nuspacesim.simulation.geometry.region_geometry import RegionGeomToO
    from nuspacesim.simulation.geometry.too import ToOEvent

    _iers()
    out = []
    res = {}
    with warnings.catch_warnings():
        warnings.simplefilter("ignore")
        for cuts in (True, False):
            s2 = dict(sm)
            s2["sun_moon_cuts"] = cuts
            cfg = mk(p["ra"], p["dec"], p["date"], p["T"], p["N"], p["lat"], p["lon"], p["alt"], p["limb"], sm=s2)
            g = RegionGeomToO(cfg)
            g.throw(p["N"])
            n = len(g.pathLens())
            if n == 0:
                return [], 0, None
            rec = {}
            for method in ("Optical", "Radio"):
                def store(names, cols, _m=method):
                    rec[_m] = np.array(cols[0], dtype=float)

                r = g.mcintegral(np.full(n, 100.0), np.full(n, math.cos(math.radians(1.5))), np.full(n, 0.5), 10.0, 1.0, 1.0, lenDec=np.zeros(n), method=method, store=store)
                res[(cuts, method)] = (r, rec[method])
            if cuts:
                dark = np.asarray(ToOEvent(cfg).sun_moon_cut(g.val_times()), dtype=bool)
                # the aftermath of refused calls on the SAME thrown geometry (a channel name that does not exist; a radio
                # call whose store callback fails), and repeated evaluations with decay lengths that are not zero: the
                # optical integral is evaluated at each event time as before, and the stored path lengths stay what they were
                L0 = np.array(g.pathLens(), dtype=float, copy=True).tobytes()
                args = (np.full(n, 100.0), np.full(n, math.cos(math.radians(1.5))), np.full(n, 0.5), 10.0, 1.0, 1.0)

                def boom(names, cols):
                    raise RuntimeError("injected store failure")

                for kw in (dict(method="Both"), dict(method="Radio", store=boom), dict(method="radio")):
                    try:
                        g.mcintegral(*args, lenDec=np.zeros(n), **kw)
                    except Exception:
                        pass
                again = {}
                r2 = g.mcintegral(*args, lenDec=np.zeros(n), method="Optical", store=lambda names, cols: again.__setitem__("c", np.array(cols[0], dtype=float)))
                if not (r2[0] == res[(True, "Optical")][0][0] and r2[2] == res[(True, "Optical")][0][2] and again.get("c", np.zeros(0)).tobytes() == res[(True, "Optical")][1].tobytes()):
                    out.append(("darksky_at_each_event_time_after_refused_calls", float(res[(True, "Optical")][0][0]), float(r2[0])))
                reps = [g.mcintegral(*args, lenDec=np.full(n, 3.0), method=m) for m in ("Optical", "Radio", "Optical", "Radio")]
                if not (reps[0][0] == reps[2][0] and reps[1][0] == reps[3][0] and reps[0][1] == reps[2][1] and reps[1][1] == reps[3][1]):
                    out.append(("integral_repeatable_on_one_throw", [float(reps[0][0]), float(reps[1][1])], [float(reps[2][0]), float(reps[3][1])]))
                if np.array(g.pathLens(), dtype=float).tobytes() != L0:
                    out.append(("path_lengths_unchanged_by_the_integrals", "as thrown", "changed"))
    rO1, cO1 = res[(True, "Optical")]
    rO0, cO0 = res[(False, "Optical")]
    rR1, cR1 = res[(True, "Radio")]
    rR0, cR0 = res[(False, "Radio")]
    if not (rR1[0] == rR0[0] and rR1[2] == rR0[2] and cR1.tobytes() == cR0.tobytes()):
        out.append(("radio_unaffected_by_cut", float(rR0[0]), float(rR1[0])))
    if not (rO1[0] <= rO0[0] and rO1[2] <= rO0[2]):
        out.append(("cut_only_removes_events", float(rO0[0]), float(rO1[0])))
    exp = np.where(dark, cO0, 0.0)
    if exp.tobytes() != cO1.tobytes():
        out.append(("cut_aligned_with_event_times", exp.tolist()[:6], cO1.tolist()[:6]))
    return out, n, (int(dark.sum()), int((~dark).sum()))


KEPT_INFO = []


def judge_cut_history():
    """one RegionGeomToO object: throw(times A) -> optical integral -> throw(times B, SAME number of kept events but
    different sun/moon conditions) -> optical integral; each per-event column must equal a fresh object's."""
    from nuspacesim.simulation.geometry.region_geometry import RegionGeomToO

    _iers()
    out = []
    p = dict(ra=0.3, dec=math.radians(89.5), date="2022-11-16T06:00:00", T=86400.0, N=48, lat=math.radians(-9), lon=math.radians(10), alt=33.0, limb=7.0)
    sm = {"sun_alt_cut": math.radians(-12), "moon_alt_cut": 0.0, "moon_min_phase_angle_cut": math.radians(90), "sun_moon_cuts": True}
    cfg = mk(p["ra"], p["dec"], p["date"], p["T"], p["N"], p["lat"], p["lon"], p["alt"], p["limb"], sm=sm)
    fr = np.arange(48) / 48.0
    night = fr[(fr > 0.55) & (fr < 0.8)]
    # the same instants in another order, and other instants with the same count, first and last element
    inner = night.copy()
    inner[1:-1] = inner[1:-1] - 0.5 + 1e-3
    day_night = np.concatenate([fr[(fr > 0.2) & (fr < 0.45)][: len(night) // 2], night[: len(night) - len(night) // 2]])
    batches = [night, night - 0.5 + 1e-3, night, fr[:12], fr[12:24], night[::-1].copy(), inner, day_night, day_night[::-1].copy()]
    steps = [(k, "Optical") for k in range(len(batches))] + [(0, "Radio"), (7, "Radio")]

    def contrib(g, t, method="Optical"):
        g.throw(np.array(t, dtype=float))
        n = len(g.pathLens())
        rec = {}
        if n == 0:
            return b""
        g.mcintegral(np.full(n, 100.0), np.full(n, math.cos(math.radians(1.5))), np.full(n, 0.5), 10.0, 1.0, 1.0, lenDec=np.zeros(n), method=method, store=lambda names, cols: rec.__setitem__("c", np.array(cols[0], dtype=float)))
        return rec["c"].tobytes() + str(n).encode()

    with warnings.catch_warnings():
        warnings.simplefilter("ignore")
        fresh = [contrib(RegionGeomToO(cfg), batches[k], m) for k, m in steps]
        KEPT_INFO[:] = [len(f) for f in fresh]
        n = 0
        seqs = list(itertools.product(range(len(steps)), repeat=2))
        # optical - radio - optical on one object (what a caller evaluating the channels in turn does)
        seqs += [(a, r, b) for a in (0, 7) for r in (len(steps) - 2, len(steps) - 1) for b in (0, 7, 8)]
        for seq in seqs:
            g = RegionGeomToO(cfg)
            for pos, si in enumerate(seq):
                n += 1
                k, m = steps[si]
                if contrib(g, batches[k], m) != fresh[si]:
                    out.append(("cut_evaluated_at_each_event_time_after_rethrow", [list(steps[i]) for i in seq[: pos + 1]], "same as a fresh object", "differs"))
                    break
    return out, n


def geometry_alphabet(tier):
    ras = [0.0, math.pi / 2, math.pi, 3 * math.pi / 2]
    decs = [-math.pi / 2, -math.pi / 4, 0.0, math.pi / 4, math.pi / 2]
    dates = ["2022-03-21T00:00:00", "2022-06-21T12:00:00", "2022-09-23T06:00:00", "2022-12-21T18:00:00", "2022-05-30T11:30:00", "2022-06-14T11:52:00"]
    Ts = [3600.0, 86400.0, 30 * 86400.0]
    Ns = [1, 2, 3, 24, 97]
    poss = [(0.0, 0.0), (math.pi / 4, math.radians(10)), (-math.pi / 4, math.pi), (math.pi / 2, 0.0), (-math.pi / 2, math.radians(10))]
    alts = [33.0, 525.0, 36000.0]
    limbs = [1.0, 7.0, 30.0]
    if tier == "quick":
        ras, decs, dates, Ts, Ns = ras[1:3], decs[1:4], [dates[1], dates[4]], Ts[:2], [3, 24]
        poss = poss[:3]
        combos = list(itertools.product(ras, decs, dates, Ts, Ns, poss))
        out = []
        for i, (ra, dec, date, T, N, (la, lo)) in enumerate(combos):
            alt = alts[i % 3]
            limb = limbs[(i // 3) % 3]
            limb = min(limb, 0.8 * math.degrees(TR.horizon_nadir(alt)))  # angle_from_limb must stay below the horizon nadir angle
            out.append(dict(ra=ra, dec=dec, date=date, T=T, N=N, lat=la, lon=lo, alt=alt, limb=limb))
        return out
    out = []
    for i, (ra, dec, date, T, N, (la, lo)) in enumerate(itertools.product(ras, decs, dates, Ts, Ns, poss)):
        for alt, limb in ((alts[i % 3], limbs[(i // 3) % 3]), (alts[(i + 1) % 3], limbs[(i // 5) % 3])):
            limb = min(limb, 0.8 * math.degrees(TR.horizon_nadir(alt)))
            out.append(dict(ra=ra, dec=dec, date=date, T=T, N=N, lat=la, lon=lo, alt=alt, limb=limb))
    return out


def run(ctx):
    from .. import pipeline

    # wiring: the run's stored columns are this stage applied to the run's stored columns (see nssmc/pipeline.py)
    pipeline.run_in(ctx, ['geometry'], ('B',))
    tier = ctx.tier
    # time grid: every N in 1..256
    for T in (3600.0, 86400.0, 1.0e6 / 3.0):
        for N in range(1, 257 if tier == "quick" else 1025):
            ctx.tick(1, ("grid", T, N) if N <= 8 else None)
            for c, e, o in judge_timegrid(N, T):
                ctx.violation(c, {"kind": "grid", "N": N, "T": T}, e, o)
    ctx.sample({"kind": "time_grid", "N": 49, "T": 86400.0})
    # geometry
    ps = geometry_alphabet(tier)
    ctx.cov["geometry_configurations"] = len(ps)
    kept_total = 0
    for p, (v, info) in zip(ps, par.pmap(judge_geometry, ps)):
        ctx.tick(p["N"], ("geo", info.get("n_kept", 0) > 0, info.get("n_below", 0) > info.get("n_kept", 0), info.get("binds"), p["alt"], p["limb"]))
        kept_total += info.get("n_kept", 0)
        for c, e, o in v:
            ctx.violation(c, {"kind": "geo", "p": p}, e, o)
    ctx.cov["kept_instants"] = kept_total
    # angle_from_limb placed ON the emergence angle of an actual instant (limit = beta_k -+ 2e-3 rad): the volume cut
    # then separates that instant from its neighbours
    placed = []
    for p in ps:
        if len(placed) >= (24 if tier == "quick" else 96):
            break
        if p["N"] < 24:
            continue
        alt_ref = TR.source_altitude(p["ra"], p["dec"], actual_values(p["date"], p["T"], p["N"], p["lat"], p["lon"], p["alt"])[0], p["lat"], p["lon"])
        nad = 0.5 * np.pi + alt_ref
        c = TR.R + p["alt"]
        with np.errstate(all="ignore"):
            b = np.arccos(c / TR.R * np.sin(nad))
        ok = np.where(np.isfinite(b) & (nad < TR.horizon_nadir(p["alt"])) & (b > math.radians(5)) & (b < math.radians(40)))[0]
        for k in ok[:2]:
            for d in (-2e-3, 2e-3):
                lim = b[k] + d
                limb = TR.horizon_nadir(p["alt"]) - math.asin(TR.R / c * math.cos(lim))
                if limb <= 0:
                    continue
                q = dict(p)
                q["limb"] = math.degrees(limb)
                placed.append(q)
    for q, (v, info) in zip(placed, par.pmap(judge_geometry, placed)):
        ctx.tick(q["N"], ("geo_placed", info.get("n_kept", 0) > 0, info.get("n_below", 0) > info.get("n_kept", 0), info.get("binds")))
        for c_, e, o in v:
            ctx.violation(c_, {"kind": "geo", "p": q}, e, o)
    ctx.cov["limb_placed_on_actual_beta_cases"] = len(placed)
    # the smallest limb angle the configuration allows (exactly 0: the limit is the horizon itself, nothing is kept) over a
    # grid of detector altitudes (the horizon formula rounds differently from altitude to altitude)
    zero_limb = [dict(ra=1.0, dec=-0.3, date="2022-06-14T11:52:00", T=86400.0, N=12, lat=0.1, lon=0.2, alt=float(a), limb=0.0) for a in np.arange(33.0, 528.0, 1.5 if tier == "quick" else 0.5)]
    for q, (v, info) in zip(zero_limb, par.pmap(judge_geometry, zero_limb)):
        ctx.tick(q["N"], ("geo_zero_limb", info.get("n_kept", 0) > 0, info.get("n_below", 0) > 0))
        for c_, e, o in v:
            ctx.violation(c_, {"kind": "geo", "p": q}, e, o)
    ctx.cov["zero_limb_altitudes"] = len(zero_limb)
    # detectors near the ground (mountain top, tower, a few metres): short, steep paths
    low = [dict(ra=ra, dec=dec, date="2022-06-14T11:52:00", T=86400.0, N=48, lat=0.1, lon=0.2, alt=a, limb=0.8 * math.degrees(TR.horizon_nadir(a))) for a in (3.0, 0.3, 0.03, 0.005) for ra, dec in ((1.0, -0.3), (4.0, 0.4))]
    for q, (v, info) in zip(low, par.pmap(judge_geometry, low)):
        ctx.tick(q["N"], ("geo_low_altitude", q["alt"], info.get("n_kept", 0) > 0))
        for c_, e, o in v:
            ctx.violation(c_, {"kind": "geo", "p": q}, e, o)
    ctx.sample({"kind": "geometry", "p": ps[len(ps) // 3]})
    # dark-sky truth table
    dates = ["2022-06-14T11:52:00", "2022-05-30T11:30:00"] + (["2022-03-21T00:00:00", "2022-12-21T18:00:00"] if tier == "thorough" else [])
    poss = [(0.0, 0.0, 525.0), (math.pi / 4, math.radians(10), 33.0)] + ([(-math.pi / 2, 0.0, 36000.0)] if tier == "thorough" else [])
    nds = 0
    qs = []
    for date, (la, lo, alt), (T, N) in itertools.product(dates, poss, [(86400.0, 12), (30 * 86400.0, 10)]):
        for pivot in sorted(set([0, N // 2, N - 1])):
            for assign in itertools.product((True, False), repeat=3):
                for delta in (1e-3, 0.2):
                    qs.append(dict(date=date, T=T, N=N, lat=la, lon=lo, alt=alt, pivot=pivot, assign=list(assign), delta=delta))
    # thresholds given outright, each of them exactly zero in turn (a zero threshold is a threshold, not "unset"):
    # Sun below the horizon, Moon below the horizon, any Moon phase
    for date, (la, lo, alt) in itertools.product(dates, poss):
        for cuts in ((0.0, 0.0, 0.0), (0.0, math.radians(-5), math.radians(120)), (math.radians(-12), 0.0, math.radians(60)), (math.radians(-6), math.radians(10), 0.0), (0, 0, 0)):
            qs.append(dict(date=date, T=30 * 86400.0, N=36, lat=la, lon=lo, alt=alt, pivot=0, assign=[True, True, True], delta=0.0, cuts=list(cuts)))
    for q, (v, sig) in zip(qs, par.pmap(judge_darksky, qs)):
        nds += 1
        ctx.tick(q["N"], ("dark", sig))
        for c, e, o in v:
            ctx.violation(c, {"kind": "dark", "q": q}, e, o)
    ctx.cov["darksky_cases"] = nds
    seqs = [(i,) for i in range(len(REUSE_STEPS))] + ([(i, j) for i in range(len(REUSE_STEPS)) for j in range(len(REUSE_STEPS)) if i != j] if tier == "thorough" else [(0, 2), (3, 1), (5, 0), (6, 4)])
    for sq, v in zip(seqs, par.pmap(judge_config_reuse, seqs)):
        ctx.tick(24 * (len(sq) + 1), ("config_reuse",) + tuple(sq))
        for c, e, o in v:
            ctx.violation(c, {"kind": "config_reuse", "seq": list(sq)}, e, o)
    ctx.cov["configuration_reuse_histories"] = len(seqs)
    ctx.sample({"kind": "dark_sky", "q": q})
    # effect of the cut through the real integral
    nce = 0
    for p in [dict(ra=math.radians(100), dec=math.radians(-20), date="2022-06-02T01:00:00", T=86400.0, N=150, lat=0.0, lon=0.0, alt=525.0, limb=7.0),
              dict(ra=0.3, dec=math.radians(89.5), date="2022-11-16T06:00:00", T=86400.0, N=48, lat=math.radians(-9), lon=math.radians(10), alt=33.0, limb=1.5),
              dict(ra=0.3, dec=math.radians(89.5), date="2022-11-30T10:00:00", T=86400.0, N=48, lat=math.radians(-9), lon=math.radians(10), alt=33.0, limb=1.5)]:
        for sm in ({}, {"sun_alt_cut": math.radians(-12), "moon_alt_cut": 0.0, "moon_min_phase_angle_cut": math.radians(90)}, {"sun_alt_cut": math.radians(10), "moon_alt_cut": math.radians(90), "moon_min_phase_angle_cut": 0.0}):
            v, n, dk = judge_cut_effect(p, sm)
            nce += 1
            ctx.tick(max(n, 1), ("effect", n > 0, dk))
            for c, e, o in v:
                ctx.violation(c, {"kind": "effect", "p": p, "sm": sm}, e, o)
    ctx.cov["cut_effect_cases"] = nce
    orders = list(itertools.permutations(range(len(DETECTORS))))
    for order, v in zip(orders, par.pmap(judge_darksky_sequence, orders)):
        ctx.tick(2 * len(order), ("darksky_sequence",) + tuple(order))
        for c, e, o in v[:2]:
            ctx.violation(c, {"kind": "dkseq", "order": list(order)}, e, o)
    v, n = judge_cut_history()
    ctx.tick(n, ("cut_history", tuple(KEPT_INFO)))
    ctx.cov["cut_history_bytes_per_batch"] = list(KEPT_INFO)
    for c, seq, e, o in v[:3]:
        ctx.violation(c, {"kind": "cut_history", "seq": seq}, e, o)


def replay(case):
    if isinstance(case, dict) and case.get("kind") == "pipeline":
        from .. import pipeline

        return pipeline.replay(case)
    k = case["kind"]
    if k == "grid":
        return judge_timegrid(case["N"], case["T"])
    if k == "geo":
        return judge_geometry(case["p"])[0]
    if k == "dark":
        return judge_darksky(case["q"])[0]
    if k == "config_reuse":
        return judge_config_reuse(tuple(case["seq"]))
    if k == "dkseq":
        return judge_darksky_sequence(tuple(case["order"]))
    if k == "cut_history":
        v, _ = judge_cut_history()
        return [(c, e, o) for c, seq, e, o in v if seq == case["seq"]]
    if k == "effect":
        return judge_cut_effect(case["p"], case["sm"])[0]
    return []
