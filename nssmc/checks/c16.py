"""C16 — a results file is self-describing and loss-free (E1 over configurations)."""

import itertools
import math
import os
import shutil
import tempfile
import warnings

import numpy as np

from .. import sim
from .c15 import ANGLE_FIELDS, flatten, same

PID = "C16"
LEVEL = "exploration"
RULE = (
    "exhaustive enumeration of a configuration alphabet: {Diffuse,Target} x {mono,power-law} x {no cloud, uniform cloud, "
    "pressure map} x channel sets, plus variants with non-default values in every header-mapped field (lat != long, "
    "awkward floats, strings up to the card limit); each is run through compute() with RNG/clock owned, written with "
    "Table.write(format='fits'), read back, and reloaded with config_from_fits; call histories: one LIVE configuration object is run, changed in place "
    "(spectrum, event count, altitude, cloud model, copied-and-retitled) and run again, for all ordered mutation sequences up to depth 2 (quick) / 3 (thorough), every table judged against the configuration in force. Distinct by (configuration, clause, "
    "column/header key)."
)
ASSUMPTIONS = [
    "finite numbers and ASCII strings that fit a FITS card (the property's own restriction); the default MonoCloud altitude of -inf is outside it",
    "a float header value is compared with the value astropy's own Card formatting can carry (fits.Card round trip), everything else exactly",
    "the set of fields config_from_fits reconstructs is observed (the dict it hands to NssConfig), not assumed",
]


def configs(tier):
    out = []
    chans = [(True, True), (True, False), (False, True)]
    for mode, spec, cloud in itertools.product(("Diffuse", "Target"), ("mono", "power"), ("none", "mono", "map")):
        cs = chans if tier == "thorough" else ([(True, True)] if (mode, spec, cloud) not in (("Diffuse", "power", "map"), ("Target", "mono", "mono")) else chans)
        for o, r in cs:
            out.append(dict(mode=mode, spectrum=spec, cloud=cloud, optical=o, radio=r, n=60, extra=None, tag="cross"))
    nd = {
        "title": "A run, with 'quotes' & symbols #1",
        "detector": {
            "name": "Det-" + "x" * 24,
            "initial_position": {"altitude": 33.3, "latitude": 0.3, "longitude": 1.1},
            "optical": {"telescope_effective_area": 1.2345678901234567, "quantum_efficiency": 0.12345678901234568, "photo_electron_threshold": 7.5},
            "radio": {"low_frequency": 50.0, "high_frequency": 410.0, "snr_threshold": 4.25, "nantennas": 7, "gain": 2.7182818284590451},
        },
        "simulation": {
            "max_cherenkov_angle": 0.061234567890123456,
            "max_azimuth_angle": 3.3,
            "angle_from_limb": 0.1,
            "ionosphere": {"total_electron_content": 50.0, "total_electron_error": 0.33333333333333331},
            "tau_shower": {"etau_frac": 0.61803398874989479, "table_version": "2"},
        },
    }
    nd2 = {
        "detector": {"initial_position": {"altitude": 1000.0, "latitude": -0.7, "longitude": 2.9}, "radio": {"nantennas": 1}},
        "simulation": {"tau_shower": {"table_version": "1"}},
    }
    for mode, spec, cloud in [("Diffuse", "mono", "none"), ("Diffuse", "power", "mono"), ("Target", "power", "map"), ("Target", "mono", "none")]:
        out.append(dict(mode=mode, spectrum=spec, cloud=cloud, optical=True, radio=True, n=60, extra=nd, tag="nondefault"))
    out.append(dict(mode="Diffuse", spectrum="power", cloud="map", optical=True, radio=True, n=60, extra=nd2, tag="nondefault2"))
    # zero / empty values in header-mapped fields (a truthiness test instead of a presence test would lose them)
    zeros = {
        "title": "",
        "detector": {"name": "", "initial_position": {"latitude": 0.0, "longitude": 0.0}, "radio": {"snr_threshold": 0.0, "gain": 0.0, "low_frequency": 0.0}},
        "simulation": {"ionosphere": {"total_electron_error": 0.0}, "spectrum": {"index": 0.0}},
    }
    out.append(dict(mode="Diffuse", spectrum="power", cloud="none", optical=True, radio=True, n=60, extra=zeros, tag="zeros"))
    out.append(dict(mode="Target", spectrum="power", cloud="mono", optical=True, radio=True, n=60, extra=zeros, tag="zeros"))
    # runs in which no trajectory survives: the (empty) table still describes the configuration that produced it
    never = {"title": "never visible", "detector": {"name": "polar", "initial_position": {"latitude": 1.3962634015954636, "altitude": 33.0}}, "simulation": {"target": {"source_DEC": 1.3962634015954636}}}
    out.append(dict(mode="Target", spectrum="power", cloud="mono", optical=True, radio=True, n=64, extra=never, tag="zero_rows"))
    out.append(dict(mode="Diffuse", spectrum="mono", cloud="none", optical=True, radio=False, n=0, extra={"title": "nothing thrown"}, tag="zero_rows"))
    if tier == "thorough":
        for alt, seed in itertools.product((33.0, 2000.0), (1, 2)):
            out.append(dict(mode="Diffuse", spectrum="power", cloud="mono", optical=True, radio=True, n=60, altitude=alt, extra=None, tag=f"alt{alt}", seed=seed))
    return out


def norm_meta(meta):
    out = {}
    for k, v in meta.items():
        # FITS standard keywords are upper case by definition; HIERARCH keys keep their case
        k2 = k[len("HIERARCH "):] if k.startswith("HIERARCH ") else (k.upper() if len(k) <= 8 and " " not in k else k)
        if isinstance(v, tuple):
            v = v[0]
        out[k2] = v
    return out


def card_value(v):
    from astropy.io import fits

    with warnings.catch_warnings():
        warnings.simplefilter("ignore")
        c = fits.Card("X", v)
        return fits.Card.fromstring(str(c)).value


def col_bytes(col, time_like=False):
    from astropy.time import Time

    if isinstance(col, Time):
        return np.asarray(col.jd1, dtype="<f8").tobytes() + np.asarray(col.jd2, dtype="<f8").tobytes(), "time", len(col)
    a = np.asarray(col)
    a = a.astype(a.dtype.newbyteorder("="), copy=False)
    if time_like and a.ndim == 2 and a.shape[1] == 2 and a.dtype.kind == "f":
        # astropy stores a Time column as the exact (jd1, jd2) pair; a plain read returns that pair
        return np.asarray(a[:, 0], dtype="<f8").tobytes() + np.asarray(a[:, 1], dtype="<f8").tobytes(), "time", len(a)
    return np.ascontiguousarray(a).tobytes(), (a.dtype.kind, a.dtype.itemsize), a.shape


def judge(spec):
    from astropy.table import Table

    import nuspacesim.config as nc
    from nuspacesim.utils.misc import flatten_dict

    kw = {k: v for k, v in spec.items() if k not in ("tag", "seed")}
    cfg = sim.make_config(**kw)
    return judge_run(cfg, spec.get("seed", 3))


MUTATIONS = ["mono9.5", "power", "events", "altitude", "copy_title", "cloud"]


def mutate(cfg, m):
    """one in-place change of a live configuration object between two runs (a parameter sweep in a notebook)"""
    import nuspacesim.config as nc

    if m == "mono9.5":
        cfg.simulation.spectrum = nc.Simulation.MonoSpectrum(log_nu_energy=9.5)
    elif m == "power":
        cfg.simulation.spectrum = nc.Simulation.PowerSpectrum(index=2.2, lower_bound=7.0, upper_bound=10.0)
    elif m == "events":
        cfg.simulation.thrown_events = cfg.simulation.thrown_events + 17
    elif m == "altitude":
        cfg.detector.initial_position.altitude = 33.0 if cfg.detector.initial_position.altitude != 33.0 else 400.0
    elif m == "copy_title":
        cfg = cfg.model_copy(deep=True)
        cfg.title = cfg.title + "+"
    elif m == "cloud":
        cfg.simulation.cloud_model = nc.Simulation.MonoCloud(altitude=2.5)
    return cfg


def judge_history(seq):
    """run, then for each mutation of `seq`: change the SAME configuration object and run again; every table must describe
    the configuration that produced it (E2: all mutation sequences up to the depth of the tier)"""
    cfg = sim.make_config(mode="Diffuse", spectrum="mono", cloud="none", optical=True, radio=False, n=40)
    out, n = [], 0
    tmp = tempfile.mkdtemp(prefix="nssmc_c16h_")
    try:
        for step in range(len(seq) + 1):
            if step:
                cfg = mutate(cfg, seq[step - 1])
            # every run of the history writes to the SAME path (as repeated `nuspacesim run -o out.fits` does)
            v, k = judge_run(cfg, 3 + step, fn=os.path.join(tmp, "out.fits"))
            n += k
            out += [(c, f"after {list(seq[:step])}: {e}", o) for c, e, o in v]
            if v:
                break
    finally:
        shutil.rmtree(tmp, ignore_errors=True)
    return out, n


def _hist_job(seq):
    return judge_history(seq)


def judge_run(cfg, seed, fn=None):
    """fn: write to (and reload from) THIS path, which may already hold an earlier run's file (a path reused across runs)"""
    from astropy.table import Table

    import nuspacesim.config as nc
    from nuspacesim.utils.misc import flatten_dict

    out = []
    tmp = tempfile.mkdtemp(prefix="nssmc_c16_")
    n_items = 0
    try:
        t = sim.run(cfg, seed=seed)
        fn = fn or os.path.join(tmp, "r.fits")
        with warnings.catch_warnings():
            warnings.simplefilter("ignore")
            try:
                t.write(fn, format="fits", overwrite=True)
                r = Table.read(fn, format="fits")
            except Exception as ex:
                return [("write_read", "a table", f"{type(ex).__name__}: {str(ex)[:160]}")], 1
        if list(r.colnames) != list(t.colnames):
            out.append(("columns_present", list(t.colnames), list(r.colnames)))
        for name in t.colnames:
            n_items += 1
            if name not in r.colnames:
                continue
            from astropy.time import Time as _T

            a, b = col_bytes(t[name]), col_bytes(r[name], time_like=isinstance(t[name], _T))
            if a != b:
                out.append(("column_bitwise", f"{name} {a[1]} {a[2]}", f"{b[1]} {b[2]} differs"))
        ma, mb = norm_meta(t.meta), norm_meta(r.meta)
        for k, v in ma.items():
            n_items += 1
            if k not in mb:
                out.append(("header_key_present", k, "missing after read"))
                continue
            w = mb[k]
            if isinstance(v, (float, np.floating)) and not isinstance(v, bool):
                exp = card_value(float(v))
                if not (isinstance(w, (float, np.floating)) and float(w) == float(exp)):
                    out.append(("header_value", f"{k}={exp!r}", repr(w)))
            elif isinstance(v, (bool, np.bool_)):
                if not (isinstance(w, (bool, np.bool_)) and bool(w) == bool(v)):
                    out.append(("header_value", f"{k}={v!r}", repr(w)))
            elif isinstance(v, (int, np.integer)):
                if not (isinstance(w, (int, np.integer)) and int(w) == int(v)):
                    out.append(("header_value", f"{k}={v!r}", repr(w)))
            else:
                if not (w == v):
                    out.append(("header_value", f"{k}={v!r}", repr(w)))
        # complete flattened configuration
        flat = flatten_dict(cfg.model_dump(), "Config", sep=" ")
        for k, v in flat.items():
            n_items += 1
            if isinstance(v, float) and not math.isfinite(v):
                continue
            if k not in mb:
                out.append(("config_in_header", k, "missing"))
                continue
            w = mb[k]
            ok = (float(w) == float(card_value(float(v)))) if (isinstance(v, float) and isinstance(w, (float, np.floating, int))) else (w == v and type(w) is type(v))
            if not ok:
                out.append(("config_in_header", f"{k}={v!r}", repr(w)))
        # reload
        seen = {}
        real = nc.NssConfig

        class Rec(real):
            def __init__(self, **data):
                seen["d"] = data
                super().__init__(**data)

        nc.NssConfig = Rec
        try:
            try:
                with warnings.catch_warnings():
                    warnings.simplefilter("ignore")
                    c2 = nc.config_from_fits(fn)
            except Exception as ex:
                out.append(("config_from_fits", "a configuration", f"{type(ex).__name__}: {str(ex)[:160]}"))
                c2 = None
        finally:
            nc.NssConfig = real
        if c2 is not None:
            rec = _paths(seen.get("d", {}))
            fa, fb = flatten(cfg), flatten(c2)
            for p in sorted(rec):
                n_items += 1
                if p.endswith(".id"):
                    p0 = p
                if p not in fa or p not in fb:
                    continue
                if not same(p, fa[p], fb[p]):
                    out.append(("reloaded_field", f"{p}={fa[p]!r}", repr(fb[p])))
            must = {"detector.initial_position.latitude", "detector.initial_position.longitude", "simulation.spectrum.id", "simulation.cloud_model.id", "simulation.mode", "simulation.thrown_events"}
            # which fields are reconstructed depends on the spectrum TYPE, never on the values recorded
            must |= {"simulation.spectrum.index", "simulation.spectrum.lower_bound", "simulation.spectrum.upper_bound"} if type(cfg.simulation.spectrum).__name__ == "PowerSpectrum" else {"simulation.spectrum.log_nu_energy"}
            if not must <= rec:
                out.append(("reloaded_set", sorted(must), sorted(must - rec)))
            if type(c2.simulation.spectrum) is not type(cfg.simulation.spectrum) or type(c2.simulation.cloud_model) is not type(cfg.simulation.cloud_model):
                out.append(("reloaded_variant", type(cfg.simulation.spectrum).__name__, type(c2.simulation.spectrum).__name__))
            # the caller edits the object it got back and loads the unchanged file again: the file's content comes back
            try:
                c2.title = str(c2.title) + " (edited)"
                c2.simulation.thrown_events = int(c2.simulation.thrown_events) + 1
                with warnings.catch_warnings():
                    warnings.simplefilter("ignore")
                    c3 = nc.config_from_fits(fn)
                n_items += 1
                if c3 is c2 or c3.simulation.thrown_events != cfg.simulation.thrown_events or c3.title != cfg.title:
                    out.append(("reload_returns_the_file_not_an_earlier_object", f"title={cfg.title!r} thrown_events={cfg.simulation.thrown_events}", f"title={c3.title!r} thrown_events={c3.simulation.thrown_events}"))
            except Exception as ex:
                out.append(("config_from_fits", "a configuration on the second load", f"{type(ex).__name__}: {str(ex)[:160]}"))
            # the aftermath of refused loads (a FITS table that is not a results file, a file that does not exist, a text
            # file): the results file still loads, and to the same configuration
            try:
                from astropy.table import Table as _Tb

                foreign = os.path.join(tmp, "foreign.fits")
                _Tb({"x": np.arange(3.0)}).write(foreign, format="fits", overwrite=True)
                text = os.path.join(tmp, "notes.fits")
                open(text, "w").write("not a FITS file\n")
                for badfn in (foreign, os.path.join(tmp, "missing.fits"), text):
                    try:
                        with warnings.catch_warnings():
                            warnings.simplefilter("ignore")
                            nc.config_from_fits(badfn)
                    except Exception:
                        pass
                with warnings.catch_warnings():
                    warnings.simplefilter("ignore")
                    c4 = nc.config_from_fits(fn)
                n_items += 1
                if c4.simulation.thrown_events != cfg.simulation.thrown_events or c4.title != cfg.title or type(c4.simulation.spectrum) is not type(cfg.simulation.spectrum):
                    out.append(("reload_after_refused_loads", f"title={cfg.title!r} thrown_events={cfg.simulation.thrown_events}", f"title={c4.title!r} thrown_events={c4.simulation.thrown_events}"))
            except Exception as ex:
                out.append(("reload_after_refused_loads", "the results file loads after other files were refused", f"{type(ex).__name__}: {str(ex)[:160]}"))
    finally:
        shutil.rmtree(tmp, ignore_errors=True)
    return out, n_items


CLI_OVERRIDES = [
    (["77"], {"simulation": {"thrown_events": 77}}),
    (["--monospectrum", "9.25"], {"simulation": {"spectrum": {"id": "monospectrum", "log_nu_energy": 9.25}}}),
    (["--powerspectrum", "1.5", "7", "10.5"], {"simulation": {"spectrum": {"id": "powerspectrum", "index": 1.5, "lower_bound": 7.0, "upper_bound": 10.5}}}),
    (["--monocloud", "2.5"], {"simulation": {"cloud_model": {"id": "monocloud", "altitude": 2.5}}}),
    (["--pressuremapcloud", "3"], {"simulation": {"cloud_model": {"id": "pressure_map", "month": 3, "version": 0}}}),
    (["--nocloud"], {"simulation": {"cloud_model": {"id": "no_cloud"}}}),
    (["55", "--monospectrum", "10", "--pressuremapcloud", "Nov"], {"simulation": {"thrown_events": 55, "spectrum": {"id": "monospectrum", "log_nu_energy": 10.0}, "cloud_model": {"id": "pressure_map", "month": 11, "version": 0}}}),
    (["--powerspectrum", "0", "9", "11"], {"simulation": {"spectrum": {"id": "powerspectrum", "index": 0.0, "lower_bound": 9.0, "upper_bound": 11.0}}}),
    (["1e2", "--powerspectrum", "1", "6", "12"], {"simulation": {"thrown_events": 100, "spectrum": {"id": "powerspectrum", "index": 1.0, "lower_bound": 6.0, "upper_bound": 12.0}}}),
]


def judge_cli(spec, stages=False, override=None):
    """the `nuspacesim run` command: the file it writes must hold, bit for bit, the table compute() produced; with
    command-line overrides (event count, spectrum, cloud model) the header describes the configuration AS OVERRIDDEN"""
    import dask
    from astropy.table import Table
    from click.testing import CliRunner

    import nuspacesim.apps.run as R
    from nuspacesim.config import create_toml

    from .. import own

    kw = {k: v for k, v in spec.items() if k not in ("tag", "seed")}
    cfg = sim.make_config(**kw)
    tmp = tempfile.mkdtemp(prefix="nssmc_c16cli_")
    out = []
    n_items = 0
    real = R.compute
    cap = {}

    def capture(*a, **k):
        t = real(*a, **k)
        cap["t"] = t.copy()
        return t

    try:
        toml = os.path.join(tmp, "c.toml")
        fn = os.path.join(tmp, "out.fits")
        create_toml(toml, cfg)
        R.compute = capture
        with warnings.catch_warnings():
            warnings.simplefilter("ignore")
            with own.frozen_clock(), own.null_progress(), dask.config.set(scheduler="synchronous"):
                np.random.seed(5)
                res = CliRunner().invoke(R.run, [toml] + (CLI_OVERRIDES[override][0] if override is not None else []) + ["-o", fn] + (["-w"] if stages else []))
        if res.exit_code != 0 or "t" not in cap:
            return [("cli_run_completes", "exit 0", f"exit {res.exit_code}: {str(res.exception)[:120]}")], 1
        if not os.path.exists(fn):
            return [("cli_writes_result_file", fn, "missing")], 1
        with warnings.catch_warnings():
            warnings.simplefilter("ignore")
            r = Table.read(fn, format="fits")
        t = cap["t"]
        if override is not None:
            import copy

            from nuspacesim.config import NssConfig
            from nuspacesim.utils.misc import flatten_dict

            d = copy.deepcopy(cfg.model_dump())
            for sec, vals in CLI_OVERRIDES[override][1].items():
                for k2, v2 in vals.items():
                    d[sec][k2] = v2
            want = flatten_dict(NssConfig(**d).model_dump(), "Config", sep=" ")
            have = norm_meta(t.meta)
            for k2, v2 in want.items():
                n_items += 1
                w = have.get(k2)
                ok = (isinstance(w, (int, float, np.floating)) and float(w) == float(card_value(float(v2)))) if isinstance(v2, float) else (w == v2)
                if not ok:
                    out.append(("cli_override_in_header", f"{k2}={v2!r} for options {CLI_OVERRIDES[override][0]}", repr(w)))
            extra_keys = [k2 for k2 in have if k2.startswith("Config ") and k2 not in want]
            if extra_keys:
                out.append(("cli_override_in_header", f"only the overridden configuration's keys for options {CLI_OVERRIDES[override][0]}", extra_keys[:4]))
            if len(t) == 0 and want.get("Config simulation thrown_events", 1) > 20:
                out.append(("cli_run_completes", "some surviving trajectories", "empty table"))
        if list(r.colnames) != list(t.colnames):
            out.append(("cli_columns_present", list(t.colnames), list(r.colnames)))
        from astropy.time import Time as _T

        for name in t.colnames:
            n_items += 1
            if name in r.colnames:
                a, b = col_bytes(t[name]), col_bytes(r[name], time_like=isinstance(t[name], _T))
                if a != b:
                    out.append(("cli_column_bitwise", f"{name} {a[1]} {a[2]}", f"{b[1]} {b[2]} differs"))
        ma, mb = norm_meta(t.meta), norm_meta(r.meta)
        for k, v in ma.items():
            n_items += 1
            if k not in mb:
                out.append(("cli_header_key_present", k, "missing in the file"))
            elif isinstance(v, (float, np.floating)) and not isinstance(v, bool):
                if not (float(mb[k]) == float(card_value(float(v))) or (math.isnan(float(v)) and (isinstance(mb[k], str) or math.isnan(float(mb[k]))))):
                    out.append(("cli_header_value", f"{k}={v!r}", repr(mb[k])))
            elif not (mb[k] == v):
                out.append(("cli_header_value", f"{k}={v!r}", repr(mb[k])))
    finally:
        R.compute = real
        shutil.rmtree(tmp, ignore_errors=True)
    return out, n_items


def _paths(d, prefix=""):
    out = set()
    for k, v in d.items():
        if isinstance(v, dict):
            out |= _paths(v, f"{prefix}{k}.")
        else:
            out.add(f"{prefix}{k}")
    return out


def run(ctx):
    cs = configs(ctx.tier)
    ctx.cov["configurations"] = len(cs)
    for i, spec in enumerate(cs):
        v, n = judge(spec)
        ctx.tick(n, ("cfg", spec["mode"], spec["spectrum"], spec["cloud"], spec["optical"], spec["radio"], spec["tag"]))
        seen = set()
        for c, e, o in v:
            key = (c, str(e)[:60])
            if key in seen:
                continue
            seen.add(key)
            ctx.violation(c, {"spec": spec, "item": str(e)[:80]}, e, o)
        if i in (0, len(cs) - 2):
            ctx.sample({k: spec[k] for k in ("mode", "spectrum", "cloud", "optical", "radio", "tag")})
    # call histories on one live configuration object
    import itertools

    from .. import par

    depth = 2 if ctx.tier == "quick" else 3
    seqs = [q for d in range(1, depth + 1) for q in itertools.permutations(MUTATIONS, d) if d < 3 or q[0] in ("mono9.5", "copy_title")]
    for q, (v, n) in zip(seqs, par.pmap(_hist_job, seqs)):
        ctx.tick(max(n, 1), ("history",) + tuple(q))
        seen = set()
        for c, e, o in v:
            if c in seen:
                continue
            seen.add(c)
            ctx.violation(c, {"history": list(q), "item": str(e)[:80]}, e, o)
    ctx.cov["configuration_mutation_histories"] = len(seqs)
    # (the last two are runs in which no trajectory survives: the command still writes the empty, self-describing table)
    never = {"title": "never visible", "detector": {"name": "polar", "initial_position": {"latitude": 1.3962634015954636, "altitude": 33.0}}, "simulation": {"target": {"source_DEC": 1.3962634015954636}}}
    for spec in [dict(mode="Diffuse", spectrum="mono", cloud="none", optical=True, radio=True, n=60, tag="cli"), dict(mode="Target", spectrum="power", cloud="mono", optical=True, radio=True, n=150, tag="cli"),
                 dict(mode="Target", spectrum="power", cloud="mono", optical=True, radio=True, n=64, extra=never, tag="cli_zero_rows"), dict(mode="Diffuse", spectrum="mono", cloud="none", optical=True, radio=False, n=0, extra={"title": "nothing thrown"}, tag="cli_zero_rows")]:
        for stages in (False, True):
            v, n = judge_cli(spec, stages)
            ctx.tick(max(n, 1), ("cli", spec["mode"], stages, spec["tag"]))
            for c, e, o in v:
                ctx.violation(c, {"spec": spec, "item": str(e)[:80], "cli": True, "stages": stages}, e, o)
    spec = dict(mode="Diffuse", spectrum="mono", cloud="mono", optical=True, radio=True, n=60, tag="cli")
    for oi in range(len(CLI_OVERRIDES)):
        v, n = judge_cli(spec, False, override=oi)
        ctx.tick(max(n, 1), ("cli_override", oi))
        for c, e, o in v:
            ctx.violation(c, {"spec": spec, "item": str(e)[:80], "cli": True, "stages": False, "override": oi}, e, o)


def replay(case):
    if "history" in case:
        v, _ = judge_history(tuple(case["history"]))
        item = case.get("item")
        return [(c, e, o) for c, e, o in v if item is None or str(e)[:80] == item]
    v, _ = judge_cli(case["spec"], case.get("stages", False), override=case.get("override")) if case.get("cli") else judge(case["spec"])
    item = case.get("item")
    return [(c, e, o) for c, e, o in v if item is None or str(e)[:80] == item]
