"""C04 — tau energy sampling is the exact inverse transform of the propagation tables (E1 lattice)."""

import itertools
import math

import numpy as np

from ..own import RngStub
from ..ref import taus_ref as TR

PID = "C04"
LEVEL = "exploration"
RULE = (
    "full lattice: table version x log-energy {all nodes, mid-points, quarter points, 6, 6+1ulp, 12-1ulp, 12} x angle "
    "{0, beta_min/2, beta_min-1ulp, beta_min, all nodes, mid-points, beta_max, beta_max+1ulp, 60, 90 deg} x u {for the "
    "row at that (E,beta): node values strictly inside the row range, mid-points between consecutive distinct node "
    "values, row[0]+tiny, k/M}; plus every assignment of {below,inside,above} angles to batches of <= 4 events with "
    "explicit u compared with single-event calls and with the internal generator fed the same numbers. Distinct by "
    "(version, E class, angle class, u class)."
)
ASSUMPTIONS = [
    "u strictly inside the interpolated row's CDF range (the property's quantifier)",
    "on plateaus any z with F(z)=u is accepted",
    "reference = own HDF5 read + own four-corner blend + own piecewise-linear F; between lattice points nothing is claimed",
]

EPS32 = TR.EPS32
_T = {}


def taus(version):
    from nuspacesim.config import NssConfig, Simulation
    from nuspacesim.simulation.taus.taus import Taus

    if version not in _T:
        cfg = NssConfig(simulation=Simulation(tau_shower=Simulation.NuPyPropShower(table_version=str(version))))
        _T[version] = Taus(cfg)
    return _T[version]


def build_u(rows, M, tier):
    """per-row u alphabet -> (row_index array, u array, class array)"""
    n, K = rows.shape
    first = rows[:, 0]
    last = rows[:, -1]
    cand = []
    cls = []
    cand.append(rows)  # node values
    cls.append(np.zeros_like(rows, dtype=int))
    mids = 0.5 * (rows[:, :-1] + rows[:, 1:])
    cand.append(mids)
    cls.append(np.ones_like(mids, dtype=int))
    grid = np.broadcast_to((np.arange(1, M) / M)[None, :], (n, M - 1))
    cand.append(grid)
    cls.append(np.full(grid.shape, 2))
    edge = np.stack([first + 1e-300, first + 1e-12, last - 1e-12, np.full(n, 1 - 2.0**-53), np.full(n, 2.0**-53)], axis=1)
    cand.append(edge)
    cls.append(np.full(edge.shape, 3))
    U = np.concatenate(cand, axis=1)
    C = np.concatenate(cls, axis=1)
    # strictly inside the row range, with a 2e-15 guard band at the upper end: the production blend and the reference
    # blend of the last node may differ in the last ulps, and u must be inside BOTH to be inside the property's domain
    ok = (U > first[:, None]) & (U < last[:, None] - 2e-15)
    # mid-points only between DISTINCT node values; node values kept once
    ridx = np.broadcast_to(np.arange(n)[:, None], U.shape)
    return ridx[ok], U[ok], C[ok]


def judge_sampler(version, le, b, u, via="tau_energy"):
    """in-table (le, b), explicit u. returns violations [(clause, idx, expected, observed)] and z"""
    T = TR.load(version)
    zax = T["cdf_axes"]["e_tau_frac"]
    le = np.asarray(le, dtype=np.float64)
    b = np.asarray(b, dtype=np.float64)
    u = np.asarray(u, dtype=np.float64)
    le0, b0, u0 = le.copy(), b.copy(), u.copy()
    t = taus(version)
    try:
        if via == "tau_energy":
            E = np.asarray(t.tau_energy(b, le, u))
            z = E / 10.0**le
        else:
            from nuspacesim.utils.cdf import grid_cdf_sampler

            z = np.asarray(grid_cdf_sampler(t.tau_cdf_grid)(le, b, u))
            E = z * 10.0**le
    except Exception as ex:
        return [("no_exception", 0, "samples", f"{type(ex).__name__}: {ex}")], None
    out = []
    if z.shape != u.shape:
        return [("shape", 0, u.shape, z.shape)], z
    rows = TR.cdf_rows_ref(version, le, b)
    bad = ~((z >= zax[0] * (1 - 1e-12)) & (z <= zax[-1] * (1 + 1e-12)))
    for i in np.where(bad)[0]:
        out.append(("z_in_range", i, [zax[0], zax[-1]], z[i]))
    F = TR.F_ref(zax, rows, np.clip(z, zax[0], zax[-1]))
    badF = ~bad & ~(np.abs(F - u) <= 1e-12)
    for i in np.where(badF)[0]:
        out.append(("inverse_transform", i, u[i], F[i]))
    bad = ~(E <= 10.0**le * (1 + 1e-12))
    for i in np.where(bad)[0]:
        out.append(("tau_le_nu_energy", i, 10.0 ** le[i], E[i]))
    if le.tobytes() != le0.tobytes() or b.tobytes() != b0.tobytes() or u.tobytes() != u0.tobytes():
        out.append(("inputs_unmodified", 0, "unchanged", "changed"))
    return out, z


def judge_sampler_bisect(version, le, b, u, via, base=0, budget=None):
    """like judge_sampler, but when a batch raises, bisect down to the single offending events."""
    if budget is None:
        budget = [40]
    v, z = judge_sampler(version, le, b, u, via)
    if z is not None or len(u) <= 1 or budget[0] <= 0:
        return [(c, base + i, e, o) for c, i, e, o in v], z
    budget[0] -= 1
    h = len(u) // 2
    v1, z1 = judge_sampler_bisect(version, le[:h], b[:h], u[:h], via, base, budget)
    v2, z2 = judge_sampler_bisect(version, le[h:], b[h:], u[h:], via, base + h, budget)
    zz = None
    if z1 is not None and z2 is not None:
        zz = np.concatenate([z1, z2])
    else:
        zz = np.concatenate([z1 if z1 is not None else np.full(h, np.nan), z2 if z2 is not None else np.full(len(u) - h, np.nan)])
    return v1 + v2, zz


def e_call(version, b, le, u=None, feeds=None):
    """Taus.tau_energy on a batch; returns array or exception string"""
    t = taus(version)
    try:
        if u is not None:
            return np.asarray(t.tau_energy(np.array(b, dtype=float), np.array(le, dtype=float), np.array(u, dtype=float)))
        with RngStub(feeds=feeds).installed():
            return np.asarray(t.tau_energy(np.array(b, dtype=float), np.array(le, dtype=float)))
    except Exception as ex:
        return f"{type(ex).__name__}: {ex}"


def judge_big_internal(version, n):
    """a batch longer than the sampler's internal buffer, drawn with the INTERNAL generator: the numbers the generator
    handed out, in order, are one per event, and the energies are those of the same call with these numbers supplied"""
    T = TR.load(version)
    lax, bax = T["cdf_axes"]["log_e_nu"], T["cdf_axes"]["beta_rad"]
    k = np.arange(n)
    le = lax[0] + (lax[-1] - lax[0]) * ((k * 0.6180339887498949) % 1.0)
    b = bax[0] + (bax[-1] - bax[0]) * ((k * 0.7548776662466927) % 1.0)
    pos = [0]

    def fn(idx, m):
        t = ((np.arange(pos[0], pos[0] + m) + 0.5) * 0.5698402909980532) % 1.0
        pos[0] += m
        return t

    t = taus(version)
    stub = RngStub(fn=fn)
    try:
        with stub.installed():
            got = np.asarray(t.tau_energy(b.copy(), le.copy()))
    except Exception as ex:
        return [("explicit_u_vs_internal_generator", "values", f"{type(ex).__name__}: {str(ex)[:80]}")]
    handed = np.concatenate([np.asarray(r, dtype=float).ravel() for r in stub.returned]) if stub.returned else np.zeros(0)
    if handed.size != n:
        return [("explicit_u_vs_internal_generator", f"{n} numbers drawn for {n} in-range events", int(handed.size))]
    exp = e_call(version, b, le, handed)
    if isinstance(exp, str):
        return [("explicit_u_batch", "values", exp)]
    bad = np.where(exp != got)[0]
    if len(bad):
        return [("explicit_u_vs_internal_generator", f"event {int(bad[0])} of {n}: {float(exp[bad[0]])!r}", float(got[bad[0]]))]
    return []


def judge_mixed(version, b, le, u):
    """batch with explicit u == single-event explicit == single-event internal generator fed the same number;
    below-min angles bit-identical to min angle; above-max angles give eps32 * E."""
    T = TR.load(version)
    bax = T["cdf_axes"]["beta_rad"]
    out = []
    batch = e_call(version, b, le, u)
    if isinstance(batch, str):
        return [("explicit_u_batch", "values", batch)]
    # the random numbers passed by keyword, and the whole call by keyword, are the same call
    t = taus(version)
    try:
        kw1 = np.asarray(t.tau_energy(np.array(b, dtype=float), np.array(le, dtype=float), u=np.array(u, dtype=float)))
        kw2 = np.asarray(t.tau_energy(betas=np.array(b, dtype=float), log_e_nu=np.array(le, dtype=float), u=np.array(u, dtype=float)))
        if kw1.tobytes() != batch.tobytes() or kw2.tobytes() != batch.tobytes():
            out.append(("explicit_u_keyword_equals_positional", batch.tolist(), kw1.tolist() if kw1.tobytes() != batch.tobytes() else kw2.tolist()))
    except Exception as ex:
        out.append(("explicit_u_keyword_equals_positional", "values", f"{type(ex).__name__}: {str(ex)[:80]}"))
    # the stage calls the exit probability first and the energy sampler second ON THE SAME ARRAYS (Taus.__call__): the
    # sampler's answer must not depend on the earlier call having seen (or touched) them
    try:
        bb, ll, uu = np.array(b, dtype=float), np.array(le, dtype=float), np.array(u, dtype=float)
        t.tau_exit_prob(bb, ll)
        after = np.asarray(t.tau_energy(bb, ll, uu))
        if after.tobytes() != batch.tobytes():
            out.append(("energy_after_exit_probability_on_same_arrays", batch.tolist(), after.tolist()))
    except Exception as ex:
        out.append(("energy_after_exit_probability_on_same_arrays", "values", f"{type(ex).__name__}: {str(ex)[:80]}"))
    if batch.shape != (len(b),):
        return [("explicit_u_batch", (len(b),), batch.shape)]
    for i in range(len(b)):
        s = e_call(version, [b[i]], [le[i]], [u[i]])
        if isinstance(s, str) or s.shape != (1,) or s[0] != batch[i]:
            out.append(("explicit_u_batch_vs_single", float(s[0]) if not isinstance(s, str) else s, float(batch[i])))
            break
        g = e_call(version, [b[i]], [le[i]], None, feeds=[[u[i]], [u[i]], [u[i]]])
        if isinstance(g, str) or g[0] != batch[i]:
            out.append(("explicit_u_vs_internal_generator", float(g[0]) if not isinstance(g, str) else g, float(batch[i])))
            break
        if b[i] > bax[-1]:
            exp = EPS32 * 10.0 ** le[i]
            if not (abs(batch[i] - exp) <= 1e-12 * exp):
                out.append(("high_angle_negligible", exp, float(batch[i])))
                break
        if b[i] < bax[0]:
            m = e_call(version, [bax[0]], [le[i]], [u[i]])
            if isinstance(m, str) or m[0] != batch[i]:
                out.append(("low_angle_equals_min_angle", float(m[0]) if not isinstance(m, str) else m, float(batch[i])))
                break
    return out


FORMS = [("i8", "f8", "f8"), ("i4", "i8", "i8"), ("f4", "f8", "f8"), ("f8", "f4", "f8"), ("f8", "f8", "f4"), ("f4", "f4", "f4"), ("f8", "i8", "f8"), ("f8", "i4", "f4"), (">f8", ">f8", ">f8"), (">f4", "f8", ">f4")]
FORM_TOL = {"f4": 1e-5, ">f4": 1e-5}


def judge_forms(version, b, le, u, forms):
    """the same numbers handed in as single-precision / integer / byte-swapped arrays: no exception, and the value the
    double-precision call gives for the numbers those arrays hold (exactly, or to 1e-5 where an input is single)"""
    t = taus(version)
    bb, ll, uu = np.array(b, dtype=float).astype(forms[0]), np.array(le, dtype=float).astype(forms[1]), np.array(u, dtype=float).astype(forms[2])
    ins = [x.copy() for x in (bb, ll, uu)]
    ref = e_call(version, bb.astype(float), ll.astype(float), uu.astype(float))
    if isinstance(ref, str):
        return []  # (not a valid batch in double precision either: other clauses)
    try:
        got = np.asarray(t.tau_energy(bb, ll, uu), dtype=float)
    except Exception as ex:
        return [("input_form_no_exception", f"values for dtypes {forms}", f"{type(ex).__name__}: {str(ex)[:100]}")]
    tol = max([FORM_TOL.get(f, 0.0) for f in forms])
    if got.shape != ref.shape or not np.all(np.abs(got - ref) <= tol * np.abs(ref)):
        i = int(np.argmax(np.abs(got - ref) / np.abs(ref))) if got.shape == ref.shape else 0
        return [("input_form_value", f"{ref[i]!r} (dtypes {forms}, event {i}, tol {tol})", repr(got[i]) if got.shape == ref.shape else got.shape)]
    if any(a.tobytes() != c.tobytes() for a, c in zip((bb, ll, uu), ins)):
        return [("input_form_inputs_unmodified", "unchanged", "changed")]
    return []


def judge_views(version):
    """the sampler called directly with reversed (negative stride), strided and transposed 2-d VIEWS of the three arrays
    returns, element by element, what the contiguous 1-d call returns"""
    from nuspacesim.utils.cdf import grid_cdf_sampler

    smp = grid_cdf_sampler(taus(version).tau_cdf_grid)
    le = np.array([7.0, 8.5, 9.0, 10.0, 11.0, 7.7, 6.0, 12.0])
    b = np.array([0.1, 0.2, 0.3, 0.4, 0.5, 0.6, 0.05, 0.7])
    u = np.array([0.2, 0.4, 0.6, 0.8, 0.3, 0.5, 0.7, 0.1])
    ref = np.asarray(smp(le.copy(), b.copy(), u.copy()))
    out = []
    pad = lambda x: np.stack([x, x + 0.0], axis=1).ravel()  # (views with stride 2 over a padded buffer)
    forms = {
        "reversed views": ((le[::-1], b[::-1], u[::-1]), ref[::-1]),
        "strided views": ((pad(le)[::2], pad(b)[::2], pad(u)[::2]), ref),
        "transposed 2-d views": ((le.reshape(2, 4).T, b.reshape(2, 4).T, u.reshape(2, 4).T), ref.reshape(2, 4).T),
        "2-d arrays": ((le.reshape(2, 4), b.reshape(2, 4), u.reshape(2, 4)), ref.reshape(2, 4)),
        "Fortran-ordered 2-d": ((np.asfortranarray(le.reshape(2, 4)), np.asfortranarray(b.reshape(2, 4)), np.asfortranarray(u.reshape(2, 4))), ref.reshape(2, 4)),
        "reversed energies only": ((le[::-1].copy()[::-1], b, u), ref),
    }
    for name, (args, want) in forms.items():
        try:
            got = np.asarray(smp(*args))
        except Exception as ex:
            out.append(("sampler_views_agree", f"{name}: values", f"{type(ex).__name__}: {str(ex)[:80]}"))
            continue
        if got.shape != want.shape or got.tobytes() != np.ascontiguousarray(want).tobytes():
            out.append(("sampler_views_agree", f"{name}: {np.asarray(want).ravel()[:3].tolist()}", got.ravel()[:3].tolist()))
    return out


SPELLINGS = [("int", int), ("float", float), ("numpy int", np.int64), ("padded string", lambda v: f" {v} "), ("bytes", lambda v: str(v).encode())]


def judge_version_spellings(version):
    """a table version given in another spelling than the plain string is refused (by the configuration or when the
    table is looked up) or samples from that version's table: the energies for owned uniform numbers are those of the
    sampler configured with the plain string"""
    from nuspacesim.config import NssConfig, Simulation
    from nuspacesim.simulation.taus.taus import Taus

    T = TR.load(version)
    lax, bax = T["cdf_axes"]["log_e_nu"], T["cdf_axes"]["beta_rad"]
    le = np.array([lax[0], 0.5 * (lax[3] + lax[4]), lax[len(lax) // 2], lax[-1]] * 3)
    b = np.repeat([bax[0], 0.5 * (bax[5] + bax[6]), bax[-1]], 4)
    u = (np.arange(12) + 0.5) / 12.0
    want = np.asarray(taus(version).tau_energy(b.copy(), le.copy(), u.copy()), dtype=np.float64)
    out, n = [], 0
    for name, f in SPELLINGS:
        try:
            t = Taus(NssConfig(simulation=Simulation(tau_shower=Simulation.NuPyPropShower(table_version=f(version)))))
        except Exception:
            continue
        n += 1
        try:
            got = np.asarray(t.tau_energy(b.copy(), le.copy(), u.copy()), dtype=np.float64)
            ok = got.shape == want.shape and bool(np.all(got == want))
        except Exception as ex:
            got, ok = f"{type(ex).__name__}: {str(ex)[:80]}", False
        if not ok:
            out.append(("version_label_means_its_table", f"table_version={f(version)!r} ({name}) accepted: the energies of table {version}, {want[:3].tolist()}", got[:3].tolist() if isinstance(got, np.ndarray) else got))
    return out, n


def judge_rejected(version, le):
    for via in ("tau_energy", "sampler"):
        t = taus(version)
        try:
            if via == "tau_energy":
                r = t.tau_energy(np.array([0.1, 0.2]), np.array([le, le]), np.array([0.3, 0.6]))
            else:
                from nuspacesim.utils.cdf import grid_cdf_sampler

                r = grid_cdf_sampler(t.tau_cdf_grid)(np.array([le, le]), np.array([0.1, 0.2]), np.array([0.3, 0.6]))
        except Exception:
            continue
        return [("rejects_out_of_range_energy", "an exception", np.asarray(r).tolist())]
    return []


def run(ctx):
    from .. import pipeline

    # wiring: the run's stored columns are this stage applied to the run's stored columns (see nssmc/pipeline.py)
    pipeline.run_in(ctx, ['taus'], ('A', 'C'), plots=['taus_histogram', 'taus_density_beta'])
    tier = ctx.tier
    for ver in (1, 2, 3):
        v, n = judge_version_spellings(ver)
        ctx.tick(len(SPELLINGS), ("version_spellings", ver))
        ctx.cov["version_spellings_accepted"] = ctx.cov.get("version_spellings_accepted", 0) + n
        for c, e, o in v:
            ctx.violation(c, {"kind": "version_spellings", "version": ver}, e, o)
    # batches around and beyond the sampler's buffer length (8192), internal generator against supplied numbers
    for ver in (3, 1):
        for n in ((8191, 8192, 8193, 20000) if ver == 3 else (8193,)):
            ctx.tick(n, ("big_internal", ver, n > 8192))
            for c, e, o in judge_big_internal(ver, n):
                ctx.violation(c, {"kind": "big_internal", "version": ver, "n": n}, e, o)
    for ver in (3, 1, 2):
        T = TR.load(ver)
        lax = T["cdf_axes"]["log_e_nu"]
        bax = T["cdf_axes"]["beta_rad"]
        full = tier == "thorough" or ver == 3
        lpts = [lax]
        bpts = [bax]
        if full:
            lpts += [0.5 * (lax[:-1] + lax[1:]), [np.nextafter(6.0, 7), np.nextafter(12.0, 6)]]
            bpts += [0.5 * (bax[:-1] + bax[1:])]
            if tier == "thorough":
                lpts += [lax[:-1] + 0.25 * np.diff(lax)]
                bpts += [bax[:-1] + 0.25 * np.diff(bax)]
        lpts = np.unique(np.concatenate(lpts))
        bpts = np.unique(np.concatenate(bpts))
        M = 16 if tier == "quick" else 64
        L, B = np.meshgrid(lpts, bpts, indexing="ij")
        le_pts, b_pts = L.ravel(), B.ravel()
        rows = TR.cdf_rows_ref(ver, le_pts, b_pts)
        ridx, U, C = build_u(rows, M, tier)
        if tier == "quick" and ver == 3:
            # thin the per-row node/mid alphabet on mid-point rows only (all node rows keep everything)
            isnode = np.isin(le_pts, lax)[ridx] & np.isin(b_pts, bax)[ridx]
            keep = isnode | (C >= 2) | ((np.arange(len(U)) % 3) == 0)
            ridx, U, C = ridx[keep], U[keep], C[keep]
        ctx.cov.setdefault("lattice", {})[f"v{ver}"] = {"logE_points": len(lpts), "beta_points": len(bpts), "events": int(len(U))}
        le_e, b_e = le_pts[ridx], b_pts[ridx]
        chunk = 65536
        z_all = np.empty(len(U))
        for s in range(0, len(U), chunk):
            sl = slice(s, s + chunk)
            v, z = judge_sampler_bisect(ver, le_e[sl], b_e[sl], U[sl], "tau_energy")
            ctx.tick(len(U[sl]))
            if z is not None and z.shape == U[sl].shape:
                z_all[sl] = z
            else:
                z_all[sl] = np.nan
            for c, i, e, o in v[:100]:
                j = s + i
                j0 = max(j - 1, 0) if j > s else min(j + 1, len(U) - 1)
                ctx.violation(c, {"kind": "sample", "version": ver, "via": "tau_energy", "le": [le_e[j]], "b": [b_e[j]], "u": [U[j]]}, e, o,
                              alt_case={"kind": "sample", "version": ver, "via": "tau_energy", "le": [le_e[s], le_e[j0], le_e[j]], "b": [b_e[s], b_e[j0], b_e[j]], "u": [U[s], U[j0], U[j]]})
        ctx.add_sig_rows(("lat", ver), np.isin(le_e, lax).astype(int), np.isin(b_e, bax).astype(int), C)
        # direct sampler on a sub-lattice (observe_at lists it separately)
        sub = slice(0, len(U), 7)
        v, z = judge_sampler_bisect(ver, le_e[sub], b_e[sub], U[sub], "sampler")
        ctx.tick(len(U[sub]), ("direct_sampler", ver))
        for c, i, e, o in v[:50]:
            j = i * 7
            ctx.violation(c, {"kind": "sample", "version": ver, "via": "sampler", "le": [le_e[j]], "b": [b_e[j]], "u": [U[j]]}, e, o)
        # monotone in u along each (E,beta) line
        order = np.lexsort((U, ridx))
        r_s, u_s, z_s = ridx[order], U[order], z_all[order]
        same = r_s[1:] == r_s[:-1]
        dec = same & (z_s[1:] < z_s[:-1] * (1 - 1e-13))
        ctx.tick(int(same.sum()))
        for i in np.where(dec)[0][:50]:
            r = r_s[i]
            ctx.violation("monotone_in_u", {"kind": "mono", "version": ver, "le": le_pts[r], "b": b_pts[r], "u": [u_s[i], u_s[i + 1]]}, "non-decreasing", [z_s[i], z_s[i + 1]])
        if ver == 3:
            k = int(ctx.rng.integers(len(U)))
            ctx.sample({"version": 3, "log_e_nu": le_e[k], "beta_rad": b_e[k], "u": U[k], "z": z_all[k]})
        # rejected energies
        for e_out in [np.nextafter(6.0, 0), np.nextafter(12.0, 13), 5.0, 13.0]:
            ctx.tick(1, ("rej", ver, e_out))
            for c, e, o in judge_rejected(ver, e_out):
                ctx.violation(c, {"kind": "rejected", "version": ver, "le": e_out}, e, o)
        # mixed batches: every assignment of {below, inside, above} to <= 4 events, explicit u
        classes = {
            0: [0.0, bax[0] / 2, np.nextafter(bax[0], 0)],
            1: [bax[0], 0.5 * (bax[7] + bax[8]), bax[-1]],
            2: [np.nextafter(bax[-1], 4.0), math.radians(60), math.radians(90)],
        }
        les = [lax[0], 0.5 * (lax[5] + lax[6]), lax[-1], lax[9]]
        us = [0.37, 0.11, 0.83, 0.59]
        nmax = 4 if (tier == "thorough" or ver == 3) else 3
        for n in range(1, nmax + 1):
            for assign in itertools.product((0, 1, 2), repeat=n):
                for variant in range(3):
                    bb = [classes[a][(variant + k) % 3] for k, a in enumerate(assign)]
                    ll = [les[(k + variant) % 4] for k in range(n)]
                    uu = [us[(k + 2 * variant) % 4] for k in range(n)]
                    v = judge_mixed(ver, bb, ll, uu)
                    ctx.tick(n, ("mixed", ver, assign))
                    for c, e, o in v:
                        ctx.violation(c, {"kind": "mixed", "version": ver, "b": bb, "le": ll, "u": uu}, e, o)
        # energy patterns of a batch: every assignment of 3 energy values to batches of 3..4 events (includes batches
        # whose first and last energies coincide while the interior differs, sorted, reversed and constant batches)
        evals = [float(lax[2]), float(0.5 * (lax[10] + lax[11])), float(lax[-1])]
        bmid = float(0.5 * (bax[7] + bax[8]))
        for n in (3, 4):
            for pat in itertools.product(range(3), repeat=n):
                ll = [evals[k] for k in pat]
                bb = [bmid, float(bax[20]), float(bax[3]), bmid][:n]
                uu = [0.37, 0.11, 0.83, 0.59][:n]
                v = judge_mixed(ver, bb, ll, uu)
                ctx.tick(n, ("energy_pattern", ver, pat[0] == pat[-1], len(set(pat))))
                for c, e, o in v:
                    ctx.violation(c, {"kind": "mixed", "version": ver, "b": bb, "le": ll, "u": uu}, e, o)
        # the aftermath of a refused call: a 6-event batch over all three angle classes with ONE energy outside the table,
        # at every position in turn, then the valid batch (rotated) ON THE SAME OBJECT against its events one at a time
        ab = [0.0, float(bax[0]) / 2, float(bax[7]), bmid, float(bax[-1]), math.radians(60.0)]
        al = [float(lax[3]), 9.1, float(lax[10]), 7.77, 12.0, 8.0]
        au = [0.37, 0.11, 0.83, 0.59, 0.5, 0.2]
        for ppos in range(len(ab)):
            pl = list(al); pl[ppos] = 12.5
            e_call(ver, ab, pl, au)  # (refused: returns the exception text)
            r = ppos + 1
            bb, ll, uu = ab[r:] + ab[:r], al[r:] + al[:r], au[r:] + au[:r]
            v = judge_mixed(ver, bb, ll, uu)
            ctx.tick(len(ab), ("after_refused", ver, ppos))
            for c, e, o in v:
                ctx.violation(c, {"kind": "after_refused", "version": ver, "pos": ppos, "b": bb, "le": ll, "u": uu, "b0": ab, "le0": pl, "u0": au}, e, o)
        ctx.tick(48, ("views", ver))
        for c, e, o in judge_views(ver):
            ctx.violation(c, {"kind": "views", "version": ver}, e, o)
        # input dtype forms: batches of every angle-class pattern (below minimum / in range / above maximum), whole-number
        # energies so that integer arrays can hold them
        for forms in FORMS:
            for assign in itertools.product((0, 1, 2), repeat=3):
                bb = [classes[a][k % 3] for k, a in enumerate(assign)]
                ll = [7.0, 9.0, 11.0]
                uu = [0.375, 0.125, 0.8125]
                ctx.tick(3, ("forms", ver, forms, assign))
                for c, e, o in judge_forms(ver, bb, ll, uu, forms):
                    ctx.violation(c, {"kind": "forms", "version": ver, "b": bb, "le": ll, "u": uu, "forms": list(forms)}, e, o)
    ctx.sample({"kind": "mixed", "angles_deg": [0.0, 10.0, 60.0], "u": [0.37, 0.11, 0.83]})


def replay(case):
    if isinstance(case, dict) and case.get("kind") == "views":
        return judge_views(case["version"])
    if isinstance(case, dict) and case.get("kind") == "forms":
        return judge_forms(case["version"], case["b"], case["le"], case["u"], tuple(case["forms"]))
    if isinstance(case, dict) and case.get("kind") == "pipeline":
        from .. import pipeline

        return pipeline.replay(case)
    k = case["kind"]
    if k == "after_refused":
        from nuspacesim.config import NssConfig  # noqa: F401  (a fresh sampler object for the replay)
        _T.pop(case["version"], None) if "_T" in globals() else None
        e_call(case["version"], case["b0"], case["le0"], case["u0"])
        return judge_mixed(case["version"], case["b"], case["le"], case["u"])
    if k == "big_internal":
        return judge_big_internal(case["version"], case["n"])
    if k == "version_spellings":
        return judge_version_spellings(case["version"])[0]
    if k == "sample":
        v, _ = judge_sampler(case["version"], case["le"], case["b"], case["u"], via=case["via"])
        return [(c, e, o) for c, i, e, o in v]
    if k == "mono":
        v, z = judge_sampler(case["version"], [case["le"]] * 2, [case["b"]] * 2, case["u"])
        out = [(c, e, o) for c, i, e, o in v]
        if z is not None and len(z) == 2 and z[1] < z[0] * (1 - 1e-13):
            out.append(("monotone_in_u", "non-decreasing", z.tolist()))
        return out
    if k == "rejected":
        return judge_rejected(case["version"], case["le"])
    if k == "mixed":
        return judge_mixed(case["version"], case["b"], case["le"], case["u"])
    return []
