"""C05 — tau exit probability: faithful, bounded, history-independent (E1 lattice + E2 history BFS)."""

import itertools
import math

import numpy as np

from .. import history
from ..own import RngStub
from ..ref import taus_ref as TR

PID = "C05"
LEVEL = "model_checking"
RULE = (
    "(E1) full lattice: table version x every table node (25x51) x every cell mid-point and edge mid-point x clamp "
    "alphabet of angles (0, beta_min/2, beta_min-1ulp, beta_min, beta_max, beta_max+1ulp, 60, 90 deg) x rejected "
    "energies; (E2) explicit-state BFS over ALL call sequences up to depth d on ONE Taus object from an alphabet of "
    "same-shaped calls with different clamp masks (tau_exit_prob x3, tau_energy, __call__), state = hash of all arrays "
    "reachable from the object; in every state every op is compared bit for bit with the same op on a fresh object. "
    "Distinct by (version, node/mid class, clamp class) and by reached state."
)
ASSUMPTIONS = [
    "the 1.19e-7 floor is accepted to 1e-5 relative (the code evaluates it through float32 log10)",
    "reference = own HDF5 read + own four-corner blend of log10(table); between lattice points nothing is claimed",
]

FLOOR = TR.EPS32
_T = {}


def taus(version, fresh=False):
    from nuspacesim.config import NssConfig, Simulation
    from nuspacesim.simulation.taus.taus import Taus

    if fresh or version not in _T:
        cfg = NssConfig(simulation=Simulation(tau_shower=Simulation.NuPyPropShower(table_version=str(version))))
        t = Taus(cfg)
        if fresh:
            return t
        _T[version] = t
    return _T[version]


def judge_points(version, le, b, fresh=False):
    """le, b arrays (all le inside [6,12]). returns list of (clause, idx, expected, observed)"""
    T = TR.load(version)
    bax = T["pexit_axes"]["beta_rad"]
    bmin, bmax = bax[0], bax[-1]
    le = np.asarray(le, dtype=np.float64)
    b = np.asarray(b, dtype=np.float64)
    le0, b0 = le.copy(), b.copy()
    t = taus(version, fresh=fresh)
    try:
        p = np.asarray(t.tau_exit_prob(b, le))
    except Exception as ex:
        return [("no_exception", 0, "values", f"{type(ex).__name__}: {ex}")], None
    out = []
    if p.shape != b.shape:
        return [("shape", 0, b.shape, p.shape)], p
    low = b < bmin
    high = b > bmax
    bb = np.where(low, bmin, np.where(high, bmax, b))
    ref, cmin, cmax = TR.pexit_ref(version, le, bb)
    tol = 1e-12 * ref
    bad = ~high & ~(np.abs(p - ref) <= tol)
    for i in np.where(bad)[0]:
        out.append(("interp_low_angle" if low[i] else "interp_value", i, ref[i], p[i]))
    bad = ~high & ~((p >= cmin * (1 - 1e-12)) & (p <= cmax * (1 + 1e-12)))
    for i in np.where(bad)[0]:
        out.append(("within_corners", i, [cmin[i], cmax[i]], p[i]))
    bad = high & ~(np.abs(p - FLOOR) <= 1e-5 * FLOOR)
    for i in np.where(bad)[0]:
        out.append(("high_angle_floor", i, FLOOR, p[i]))
    bad = ~((p > 0) & (p <= 1))
    for i in np.where(bad)[0]:
        out.append(("in_unit_interval", i, "(0,1]", p[i]))
    if le.tobytes() != le0.tobytes() or b.tobytes() != b0.tobytes():
        out.append(("inputs_unmodified", 0, "unchanged", "changed"))
    return out, p


def judge_nodes(version, t=None):
    """every node: equals the table entry or the floor where the entry is <= 0"""
    T = TR.load(version)
    lax = T["pexit_axes"]["log_e_nu"]
    bax = T["pexit_axes"]["beta_rad"]
    L, B = np.meshgrid(lax, bax, indexing="ij")
    t = taus(version) if t is None else t
    p = np.asarray(t.tau_exit_prob(B.ravel().copy(), L.ravel().copy())).reshape(L.shape)
    tab = T["pexit"]
    exp = np.where(tab <= 0, FLOOR, tab)
    bad = ~(np.abs(p - exp) <= 1e-12 * exp)
    return [("node_value", (int(i), int(j)), exp[i, j], p[i, j]) for i, j in zip(*np.where(bad))], tab


SPELLINGS = [("int", int), ("float", float), ("numpy int", np.int64), ("padded string", lambda v: f" {v} "), ("bytes", lambda v: str(v).encode())]


def judge_version_spellings(version):
    """a table version given in another spelling than the plain string is refused (by the configuration or when the
    table is looked up) or selects that version's table, floor included"""
    from nuspacesim.config import NssConfig, Simulation
    from nuspacesim.simulation.taus.taus import Taus

    out, n = [], 0
    for name, f in SPELLINGS:
        try:
            cfg = NssConfig(simulation=Simulation(tau_shower=Simulation.NuPyPropShower(table_version=f(version))))
            t = Taus(cfg)
        except Exception:
            continue
        n += 1
        try:
            v, _ = judge_nodes(version, t)
        except Exception as ex:
            v = [("node_value", (0, 0), "values", f"{type(ex).__name__}: {str(ex)[:80]}")]
        out += [("version_label_means_its_table", f"table_version={f(version)!r} ({name}) accepted: node {i} of table {version} = {e!r}", o) for _, i, e, o in v[:2]]
    return out, n


def judge_config_reuse(va, vb, order):
    """ONE configuration object: a sampler A is built for version va, the configuration's table version is set to vb in
    place, a sampler B is built; then both are used in `order`. B -- built and used under vb -- reproduces the nodes of
    table vb. (A, built under va and used while the configuration says vb, may answer with either table: the unchanged
    tree reads the tables at construction.)"""
    from nuspacesim.config import NssConfig, Simulation
    from nuspacesim.simulation.taus.taus import Taus

    cfg = NssConfig(simulation=Simulation(tau_shower=Simulation.NuPyPropShower(table_version=str(va))))
    A = Taus(cfg)
    cfg.simulation.tau_shower.table_version = str(vb)
    B = Taus(cfg)
    out = []
    for who in order:
        if who == "A":
            r = [judge_nodes(v, A)[0] for v in (va, vb)]
            if all(r):
                out.append(("table_of_the_configured_version", f"sampler built for version {va} (configuration now {vb}), used {order}: nodes of table {va} or {vb}", f"neither (node {r[0][0][1]}: {r[0][0][3]!r})"))
        else:
            r = judge_nodes(vb, B)[0]
            if r:
                out.append(("table_of_the_configured_version", f"sampler built and used under version {vb} after one built for {va} on the same configuration object, used {order}: node {r[0][1]} = {r[0][2]!r}", r[0][3]))
    return out


def judge_rejected(version, le):
    t = taus(version)
    try:
        p = t.tau_exit_prob(np.array([0.1, 0.2]), np.array([le, le]))
    except Exception:
        return []
    return [("rejects_out_of_range_energy", "an exception", np.asarray(p).tolist())]


# ---- history alphabet ---------------------------------------------------------------------

def hist_ops(version):
    T = TR.load(version)
    lax = T["pexit_axes"]["log_e_nu"]
    bax = T["pexit_axes"]["beta_rad"]
    n = 8
    le_nodes = lax[[0, 3, 7, 12, 16, 20, 23, 24]]
    b_nodes = bax[[0, 5, 10, 20, 30, 40, 49, 50]]
    le_mid = 0.5 * (lax[[0, 3, 7, 12, 16, 20, 22, 23]] + lax[[1, 4, 8, 13, 17, 21, 23, 24]])
    b_mid = 0.5 * (bax[[0, 5, 10, 20, 30, 40, 48, 49]] + bax[[1, 6, 11, 21, 31, 41, 49, 50]])
    b_clampA = np.array([0.0, bax[0] / 2, b_nodes[2], b_nodes[3], math.radians(60), math.radians(90), b_nodes[6], np.nextafter(bax[-1], 1.0)])
    b_clampB = b_clampA[::-1].copy()  # same shape, clamp classes at different positions
    u = np.array([0.11, 0.23, 0.37, 0.41, 0.53, 0.67, 0.79, 0.89])

    def op_nodes(o):
        return o.tau_exit_prob(b_nodes.copy(), le_nodes.copy())

    def op_mid(o):
        return o.tau_exit_prob(b_mid.copy(), le_mid.copy())

    def op_clampA(o):
        return o.tau_exit_prob(b_clampA.copy(), le_mid.copy())

    def op_clampB(o):
        return o.tau_exit_prob(b_clampB.copy(), le_mid.copy())

    def op_energy(o):
        with RngStub(fn=lambda i, m: np.resize(u, m)).installed():
            return o.tau_energy(b_mid.copy(), le_mid.copy())

    def op_call(o):
        with RngStub(fn=lambda i, m: np.resize(u, m)).installed():
            return o(b_nodes.copy(), le_nodes.copy())

    def op_call_clamp(o):
        with RngStub(fn=lambda i, m: np.resize(u, m)).installed():
            return o.tau_exit_prob(b_clampA.copy(), le_nodes.copy()), o.tau_exit_prob(b_mid.copy(), le_nodes.copy())

    def op_rejected(o):
        # a call that is (correctly) rejected because an energy is outside the table must leave the object usable
        try:
            o.tau_exit_prob(b_mid.copy(), np.where(np.arange(n) == 3, 12.5, le_mid))
        except Exception as ex:
            return "raised"
        return "returned"

    def op_rejected_low(o):
        try:
            o.tau_exit_prob(b_nodes[:1].copy(), np.array([5.0]))
        except Exception as ex:
            return "raised"
        return "returned"

    ops = [op_nodes, op_mid, op_clampA, op_clampB, op_energy, op_call, op_call_clamp, op_rejected, op_rejected_low]
    return ops


FORM_B = [0.0, 0.001, 0.25, 0.5, 0.7, 1.0, 0.0, 1.0]
FORM_LE = [7.0, 8.0, 9.0, 10.0, 11.0, 12.0, 6.0, 6.0]


def judge_forms(version, f):
    from .. import forms

    t = taus(version, fresh=True)
    return forms.judge(lambda bb, ll: t.tau_exit_prob(bb, ll), [np.array(FORM_B), np.array(FORM_LE)], tuple(f), what="tau_exit_prob")


def judge_call_forms(version):
    """the 0-d array, NumPy scalar and 2-d forms of a call return what the 1-d call returns, for angles below the
    minimum, in range, on the edges and above the maximum (Python floats are not accepted by the unchanged tree)"""
    T = TR.load(version)
    bax = T["pexit_axes"]["beta_rad"]
    t = taus(version, fresh=True)
    out = []
    for b in (0.0, float(bax[0]) / 2, float(bax[0]), 0.3, float(bax[-1]), float(np.nextafter(bax[-1], 4.0)), 1.0, math.pi / 2):
        for le in (6.0, 7.1, 9.5, 12.0):
            ref = np.asarray(t.tau_exit_prob(np.array([b]), np.array([le])))[0]
            for name, bb, ll in (("0-d array", np.array(b), np.array(le)), ("numpy scalar", np.float64(b), np.float64(le)), ("2-d array", np.array([[b, b]]), np.array([[le, le]]))):
                try:
                    r = np.asarray(t.tau_exit_prob(bb, ll), dtype=float)
                except Exception as ex:
                    out.append(("call_forms_agree", f"{name} beta={b} logE={le}: {ref!r}", f"{type(ex).__name__}: {str(ex)[:60]}"))
                    continue
                if r.shape != np.shape(bb) or not np.all(r == ref):
                    out.append(("call_forms_agree", f"{name} beta={b} logE={le}: {ref!r}", r.ravel()[:2].tolist()))
    return out


def _reuse_job(a):
    return judge_config_reuse(*a)


def run(ctx):
    from .. import forms, par, pipeline

    # first, before this process has built a sampler of its own: each history in a forked child of its own, so that
    # nothing class- or module-level that another history (or this check) filled in can stand in for a missing table
    jobs = [(va, vb, order) for va, vb in ((3, 1), (1, 3), (2, 3), (3, 2), (1, 2)) for order in (("A", "B"), ("B", "A"), ("B",), ("A", "B", "A", "B"))]
    for (va, vb, order), v in zip(jobs, par.pmap_isolated(_reuse_job, jobs)):
        ctx.tick(2 * len(order), ("config_reuse", va, vb, order))
        for c, e, o in v:
            ctx.violation(c, {"kind": "config_reuse", "va": va, "vb": vb, "order": list(order)}, e, o)

    for ver in (1, 2, 3):
        v, n = judge_version_spellings(ver)
        ctx.tick(len(SPELLINGS), ("version_spellings", ver))
        ctx.cov["version_spellings_accepted"] = ctx.cov.get("version_spellings_accepted", 0) + n
        for c, e, o in v:
            ctx.violation(c, {"kind": "version_spellings", "version": ver}, e, o)
    for ver in (1, 2, 3):
        ctx.tick(96, ("call_forms", ver))
        for c, e, o in judge_call_forms(ver)[:3]:
            ctx.violation(c, {"kind": "call_forms", "version": ver}, e, o)

    # input forms: the angles / log-energies as integer, single-precision and byte-swapped arrays
    for ver in (1, 2, 3):
        for f in forms.product(2):
            ctx.tick(len(FORM_B), ("forms", ver, f))
            for c, e, o in judge_forms(ver, f):
                ctx.violation(c, {"kind": "forms", "version": ver, "forms": list(f)}, e, o)

    # wiring: the run's stored columns are this stage applied to the run's stored columns (see nssmc/pipeline.py)
    pipeline.run_in(ctx, ['taus'], ('A', 'B'), plots=['taus_pexit', 'taus_overview'])
    tier = ctx.tier
    for ver in (1, 2, 3):
        T = TR.load(ver)
        lax = T["pexit_axes"]["log_e_nu"]
        bax = T["pexit_axes"]["beta_rad"]
        # nodes
        v, tab = judge_nodes(ver)
        ctx.tick(tab.size, ("nodes", ver))
        ctx.sigs.add(("nodes_floor", ver, bool((tab <= 0).any())))
        for c, ij, e, o in v:
            ctx.violation(c, {"kind": "node", "version": ver, "i": ij[0], "j": ij[1]}, e, o)
        # nodes + mid-points lattice x clamp alphabet
        lpts = np.unique(np.concatenate([lax, 0.5 * (lax[:-1] + lax[1:]), [np.nextafter(6.0, 7), np.nextafter(12.0, 6)]]))
        bin_ = np.unique(np.concatenate([bax, 0.5 * (bax[:-1] + bax[1:])]))
        clamps = np.array([0.0, bax[0] / 2, np.nextafter(bax[0], 0), bax[0], bax[-1], np.nextafter(bax[-1], 4.0), math.radians(60), math.radians(90)])
        if tier == "thorough":
            lpts = np.unique(np.concatenate([lpts, lax[:-1] + 0.25 * np.diff(lax), lax[:-1] + 0.75 * np.diff(lax)]))
            bin_ = np.unique(np.concatenate([bin_, bax[:-1] + 0.25 * np.diff(bax), bax[:-1] + 0.9 * np.diff(bax)]))
        bpts = np.unique(np.concatenate([bin_, clamps]))
        L, B = np.meshgrid(lpts, bpts, indexing="ij")
        le, b = L.ravel(), B.ravel()
        v, p = judge_points(ver, le, b)
        ctx.tick(len(le))
        cls = np.where(b < bax[0], 0, np.where(b > bax[-1], 2, 1))
        isnode_l = np.isin(le, lax).astype(int)
        isnode_b = np.isin(b, bax).astype(int)
        ctx.add_sig_rows(("lat", ver), cls, isnode_l, isnode_b)
        for c, i, e, o in v[:400]:
            ctx.violation(c, {"kind": "point", "version": ver, "le": [le[i]], "b": [b[i]]}, e, o)
        if ver == 3 and p is not None:
            k = int(ctx.rng.integers(len(le)))
            ctx.sample({"version": 3, "log_e_nu": le[k], "beta_rad": b[k], "pexit": p[k]})
        # mono-energetic batches (every event the same energy, as a mono spectrum produces them) and batches of one
        for e_mono in [float(lax[0]), float(lax[7]), float(0.5 * (lax[10] + lax[11])), float(lax[-1]), 8.0]:
            v, p1 = judge_points(ver, np.full(len(bpts), e_mono), bpts.copy())
            ctx.tick(len(bpts), ("mono_batch", ver, e_mono))
            for c, i, e, o in v[:50]:
                ctx.violation(c, {"kind": "point_batch", "version": ver, "le": [e_mono] * len(bpts), "b": bpts.tolist(), "idx": int(i)}, e, o,
                              alt_case={"kind": "point_batch", "version": ver, "le": [e_mono] * len(bpts), "b": bpts.tolist(), "idx": int(i)})
            for bb in clamps:
                v, _ = judge_points(ver, np.array([e_mono]), np.array([bb]))
                ctx.tick(1, ("single", ver))
                for c, i, e, o in v:
                    ctx.violation(c, {"kind": "point", "version": ver, "le": [e_mono], "b": [float(bb)]}, e, o)
        # batch composition: every ordered triple (repetition allowed) over a small event alphabet - energies on a node, between
        # nodes and at both ends of the axis, angles below / inside / above the table - is one batch; each lane is judged
        # against the table for ITS OWN energy and angle, so a shortcut decided from the first, the last or the extreme
        # element of the batch (or from the batch being "mono-energetic" at its ends) shows in the lanes it mis-serves
        import itertools
        ev = [(float(lax[0]), float(bax[3])), (float(lax[-1]), float(0.5 * (bax[5] + bax[6]))), (8.0, float(bax[0] / 2)),
              (float(0.5 * (lax[10] + lax[11])), float(bax[-1])), (9.25, math.radians(60)), (float(lax[7]), float(0.5 * (bax[20] + bax[21]))), (8.0, float(bax[10]))]
        for combo in itertools.product(range(len(ev)), repeat=3):
            cl = np.array([ev[k][0] for k in combo]); cb = np.array([ev[k][1] for k in combo])
            v, _ = judge_points(ver, cl, cb)
            ctx.tick(3, ("triple", ver, len(set(combo)), combo[0] == combo[2]))
            for c, i, e, o in v[:3]:
                ctx.violation(c, {"kind": "point_batch", "version": ver, "le": cl.tolist(), "b": cb.tolist(), "idx": int(i)}, e, o)
        # the aftermath of a refused call: the 7-event alphabet as ONE batch with one event's energy outside the table, at
        # every position in turn (the refusal may come after other angle classes were already evaluated), each followed by
        # the valid batch in a rotated order ON THE SAME OBJECT, judged lane by lane against the table
        al = np.array([e[0] for e in ev]); ab = np.array([e[1] for e in ev])
        for ppos in range(len(ev)):
            for outside in (12.5, 5.5):
                pl = al.copy(); pl[ppos] = outside
                try:
                    taus(ver).tau_exit_prob(ab.copy(), pl)
                except Exception:
                    pass
                rl, rb = np.roll(al, ppos + 1), np.roll(ab, ppos + 1)
                v, _ = judge_points(ver, rl, rb)
                ctx.tick(len(ev), ("after_refused", ver, ppos < 3, outside > 12))
                for c, i, e, o in v[:3]:
                    ctx.violation("history_independent" if c.startswith(("interp", "high", "within")) else c, {"kind": "after_refused", "version": ver, "pos": ppos, "outside": outside}, e, o)
        lo_b = np.array([0.0, bax[0] / 2, np.nextafter(bax[0], 0)])
        for lb in lo_b:
            t = taus(ver)
            p1 = t.tau_exit_prob(np.full(len(lpts), lb), lpts.copy())
            p2 = t.tau_exit_prob(np.full(len(lpts), bax[0]), lpts.copy())
            ctx.tick(len(lpts), ("lowclamp", ver, float(lb)))
            for i in np.where(p1 != p2)[0]:
                ctx.violation("low_angle_equals_min_angle", {"kind": "lowclamp", "version": ver, "le": lpts[i], "b": float(lb)}, p2[i], p1[i])
        # rejected energies
        for e_out in [np.nextafter(6.0, 0), np.nextafter(12.0, 13), 5.0, 13.0]:
            ctx.tick(1, ("rej", ver, e_out))
            for c, e, o in judge_rejected(ver, e_out):
                ctx.violation(c, {"kind": "rejected", "version": ver, "le": e_out}, e, o)
    # E2 histories
    depth = 3 if tier == "quick" else 4
    tot_states = tot_trans = 0
    for ver in (1, 2, 3) if tier == "thorough" else (1, 3):
        ops = hist_ops(ver)
        res = history.bfs(lambda: taus(ver, fresh=True), ops, depth)
        tot_states += res.states
        tot_trans += res.transitions
        ctx.tick(res.transitions)
        ctx.sigs.add(("hist_states", ver, res.states))
        ctx.cov.setdefault("history", {})[f"v{ver}"] = {"states": res.states, "transitions": res.transitions, "max_depth": res.max_depth, "ops": [o.__name__ for o in ops], "state_histories": sorted(map(str, res.state_histories.values()))[:10]}
        for hist, k, f, g in res.violations[:40]:
            ctx.violation("history_independent", {"kind": "history", "version": ver, "hist": hist, "op": k}, f, g)
        nseq, nstep, viol = history.all_sequences(lambda: taus(ver, fresh=True), ops, depth)
        ctx.tick(nstep)
        ctx.cov["history"][f"v{ver}"].update({"undeduplicated_sequences": nseq, "undeduplicated_steps": nstep})
        for hist, k, f, g in viol[:40]:
            ctx.violation("history_independent", {"kind": "history", "version": ver, "hist": hist, "op": k}, f, g)
        tot_trans += nstep
        ctx.traces += res.transitions + nseq
    ctx.states = tot_states
    ctx.transitions = tot_trans
    ctx.sample({"history": [0, 2, 3], "ops": ["op_nodes", "op_clampA", "op_clampB"], "version": 1})


def replay(case):
    if isinstance(case, dict) and case.get("kind") == "pipeline":
        from .. import pipeline

        return pipeline.replay(case)
    k = case["kind"]
    if k == "forms":
        return judge_forms(case["version"], case["forms"])
    if k == "call_forms":
        return judge_call_forms(case["version"])
    if k == "config_reuse":
        return judge_config_reuse(case["va"], case["vb"], tuple(case["order"]))
    if k == "version_spellings":
        return judge_version_spellings(case["version"])[0]
    if k == "node":
        v, _ = judge_nodes(case["version"])
        return [(c, e, o) for c, ij, e, o in v if ij == (case["i"], case["j"])]
    if k == "after_refused":
        import itertools as _it
        T = TR.load(case["version"]); lax = T["pexit_axes"]["log_e_nu"]; bax = T["pexit_axes"]["beta_rad"]
        ev = [(float(lax[0]), float(bax[3])), (float(lax[-1]), float(0.5 * (bax[5] + bax[6]))), (8.0, float(bax[0] / 2)),
              (float(0.5 * (lax[10] + lax[11])), float(bax[-1])), (9.25, math.radians(60)), (float(lax[7]), float(0.5 * (bax[20] + bax[21]))), (8.0, float(bax[10]))]
        al = np.array([e[0] for e in ev]); ab = np.array([e[1] for e in ev])
        pl = al.copy(); pl[case["pos"]] = case["outside"]
        t = taus(case["version"], fresh=True)
        _T[case["version"]] = t
        try:
            t.tau_exit_prob(ab.copy(), pl)
        except Exception:
            pass
        v, _ = judge_points(case["version"], np.roll(al, case["pos"] + 1), np.roll(ab, case["pos"] + 1))
        return [("history_independent" if c.startswith(("interp", "high", "within")) else c, e, o) for c, i, e, o in v]
    if k == "point_batch":
        v, _ = judge_points(case["version"], np.array(case["le"]), np.array(case["b"]), fresh=True)
        return [(c, e, o) for c, i, e, o in v]
    if k == "point":
        v, _ = judge_points(case["version"], np.array(case["le"]), np.array(case["b"]), fresh=True)
        return [(c, e, o) for c, i, e, o in v]
    if k == "lowclamp":
        T = TR.load(case["version"])
        bax = T["pexit_axes"]["beta_rad"]
        t = taus(case["version"], fresh=True)
        p1 = t.tau_exit_prob(np.array([case["b"]]), np.array([case["le"]]))
        p2 = t.tau_exit_prob(np.array([bax[0]]), np.array([case["le"]]))
        return [] if p1[0] == p2[0] else [("low_angle_equals_min_angle", p2[0], p1[0])]
    if k == "rejected":
        return judge_rejected(case["version"], case["le"])
    if k == "history":
        ver = case["version"]
        ops = hist_ops(ver)
        ok, f, g = history.replay_history(lambda: taus(ver, fresh=True), ops, case["hist"], case["op"])
        return [] if ok else [("history_independent", f, g)]
    return []
