"""C20 — radio detection chain scales correctly and respects its validity range (E1 lattice, RNG owned)."""

import itertools
import math

import numpy as np

from .. import own, sim
from ..floats import ulps

PID = "C20"
LEVEL = "exploration"
RULE = (
    "exhaustive enumeration: EVERY band (low, high) with both edges multiples of 10 MHz in [0,1650] and low<high "
    "(13 530 bands; every 3rd edge in quick) for the bin-count/centre clause; full product of consistent events "
    "(emergence angle x decay length incl. 0, the foot of the perpendicular, lengths giving decay altitude 0, 1e-9, 5, "
    "10-, 10, 10+, 15 km x view angle x path length x shower energy) x detector altitude x ionosphere on/off x antenna "
    "counts 1..64 x field scale factors, with every random number owned and keyed to its event; call histories: ONE EASRadio object on one live "
    "configuration changed in place between calls (band, altitude, ionosphere, antenna count; all step sequences up to depth 2 quick / 3 thorough) "
    "against fresh objects. Distinct by (band), "
    "(event class in/out of the 0-10 km range, zero decay length, altitude, ionosphere) and (scale factor / antenna count)."
)
ASSUMPTIONS = [
    "random numbers are drawn through numpy's legacy global uniform(); the harness attaches them to events",
    "events are geometrically consistent (decay altitude computed from decay length and emergence angle); the single degenerate event whose decay point coincides with the detector (exit view angle 0 and decay length == path length) is outside the alphabet",
]

R = 6378.1


def alt_of(l, beta):
    return math.sqrt(R * R + l * l + 2 * R * l * math.sin(beta)) - R


def len_for_alt(a, beta):
    return -R * math.sin(beta) + math.sqrt((R * math.sin(beta)) ** 2 + 2 * R * a + a * a)


def events(tier):
    betas = [math.radians(b) for b in (0.5, 1.0, 10.0, 42.0)]
    # view angles at the exit point as the geometry stage produces them (within the few-degree cone)
    thetas = [math.radians(0.2), math.radians(1.0), math.radians(3.0)] if tier == "quick" else [0.0, math.radians(0.2), math.radians(0.5), math.radians(1.0), math.radians(3.0)]
    Ls = [300.0, 2000.0]
    Es = [1e-5, 1.0, 1e4] if tier == "quick" else [1e-5, 1e-2, 1.0, 1e2, 1e4]
    out = []
    # decay altitudes below the range: rounding can make altDec slightly negative; the quantifier is "all event batches"
    for b, a in itertools.product([math.radians(0.2), math.radians(0.5), math.radians(1.5), math.radians(10.0)], [-1e-13, -0.05, -1.0, -3.0]):
        out.append((b, 1.0, a, math.radians(1.0), 1500.0, 1.0))
    # out-of-range decays with degenerate geometry: a tau that never decays (infinite decay length and altitude) and a
    # decay on the shower axis at the detector itself (view angle undefined) -- the field is exactly zero all the same
    for b in (math.radians(1.0), math.radians(10.0)):
        out.append((b, math.inf, math.inf, math.radians(1.0), 1500.0, 1.0))
        out.append((b, 1500.0, 15.0, 0.0, 1500.0, 1.0))
        out.append((b, 1500.0, -0.5, 0.0, 1500.0, 1.0))
    for b, th, L, E in itertools.product(betas, thetas, Ls, Es):
        ls = [0.0, L * math.cos(th)]
        for a in (1e-9, 5.0, 6.0, float(np.nextafter(10.0, 0)), 10.0, float(np.nextafter(10.0, 11)), 15.0):
            ls.append(len_for_alt(a, b))
        for l in ls:
            if th == 0.0 and l == L:
                continue  # the decay point coincides with the detector: the view angle is undefined (outside the domain)
            out.append((b, l, alt_of(l, b) if l > 0 else 0.0, th, L, E))
    return out


def make_cfg(alt, low, high, iono=True, nant=10):
    extra = {"detector": {"radio": {"low_frequency": float(low), "high_frequency": float(high), "nantennas": nant}}}
    if not iono:
        extra["simulation"] = {"ionosphere": {"enable": False, "total_electron_content": -1.0}}
    return sim.make_config(altitude=alt, extra=extra)


def call_radio(cfg, evs, tkey, scaleE=1.0, obj=None):
    """evs: list of event tuples; tkey: per-event dict of random numbers keyed by event tuple index"""
    from nuspacesim.simulation.eas_radio.radio import EASRadio

    arr = np.array(evs, dtype=float).reshape(-1, 6)
    beta, lenDec, altDec, theta, L, E = [arr[:, i].copy() for i in range(6)]
    inr = (altDec >= 0.0) & (altDec <= 10.0)
    nin = int(inr.sum())
    tk = np.array(tkey, dtype=float)

    def fn(idx, n):
        # draws are made for the in-range events, in event order
        if n == nin:
            return (tk[inr] * (idx + 1) * 0.37) % 1.0
        if nin and n % nin == 0:  # 2-D draw (events x bins): keyed by event and bin
            nb = n // nin
            return ((tk[inr][:, None] * 0.61 + np.arange(nb)[None, :] * 0.013) % 1.0).ravel()
        # the code under test draws for a different set of events than the property's 0-10 km range: the harness can
        # no longer tell which draw belongs to which event, so every draw gets the same number (order independence
        # and linearity must still hold; only the keyed-by-event strength of the test is lost)
        return np.full(n, 0.5)

    stub = own.RngStub(fn=fn)
    ins = [beta.copy(), altDec.copy(), lenDec.copy(), theta.copy(), L.copy(), E.copy()]
    with stub.installed(), own.quiet(), np.errstate(all="ignore"):
        ef = (EASRadio(cfg) if obj is None else obj)(beta, altDec, lenDec, theta, L, E * scaleE)
    same = all(a.tobytes() == b.tobytes() for a, b in zip([beta, altDec, lenDec, theta, L, E], ins))
    return np.asarray(ef), inr, same, len(stub.calls)


def snr_of(cfg, ef, nant=None):
    from nuspacesim.simulation.eas_radio.radio_antenna import calculate_snr

    d = cfg.detector
    with np.errstate(all="ignore"):
        return np.asarray(calculate_snr(ef, (d.radio.low_frequency, d.radio.high_frequency), d.initial_position.altitude, d.radio.nantennas if nant is None else nant, d.radio.gain))


def judge_band(low, high):
    """bin count and centres for one band"""
    from nuspacesim.simulation.eas_radio.radio import RadioEFieldParams

    cfg = make_cfg(525.0, low, high)
    evs = [(math.radians(10), 20.0, alt_of(20.0, math.radians(10)), 1.0, 1500.0, 1.0), (math.radians(5), 500.0, alt_of(500.0, math.radians(5)), 1.0, 1500.0, 1.0)]
    out = []
    try:
        ef, inr, _, _ = call_radio(cfg, evs, [0.3, 0.7])
    except Exception as ex:
        return [("band_no_exception", "fields", f"{type(ex).__name__}: {ex}")]
    freqs = np.arange(float(low), float(high), 10.0) + 5.0
    if ef.ndim != 2 or ef.shape[1] != len(freqs):
        out.append(("bin_count", len(freqs), list(ef.shape)))
    rp = RadioEFieldParams((float(low), float(high)))
    fc = np.asarray(rp.ps[0][:, 0])
    sel = fc[(fc >= rp.lowFreq) & (fc <= rp.highFreq)]
    if sel.shape != freqs.shape or not np.all(sel == freqs):
        out.append(("bin_centres", freqs[:3].tolist() + freqs[-2:].tolist(), sel[:3].tolist() + sel[-2:].tolist()))
    try:
        s = snr_of(cfg, ef)
        if s.shape != (2,) or not np.all(np.isfinite(s)):
            out.append(("snr_finite", "finite (2,)", s.tolist() if s.size < 5 else s.shape))
    except Exception as ex:
        out.append(("snr_computable", "snr", f"{type(ex).__name__}: {ex}"))
    return out


def judge_forms(f, snr=False):
    """input forms for EASRadio.__call__ (six event columns) and calculate_snr (the field array)"""
    from nuspacesim.simulation.eas_radio.radio import EASRadio
    from nuspacesim.simulation.eas_radio.radio_antenna import calculate_snr

    from .. import forms

    cfg = make_cfg(525.0, 30, 300)
    evs = [(math.radians(10), 20.0, alt_of(20.0, math.radians(10)), 0.02, 1500.0, 1.0), (math.radians(5), 500.0, alt_of(500.0, math.radians(5)), 0.03, 1500.0, 3.0), (math.radians(3), 900.0, 12.0, 0.02, 1500.0, 1.0), (1.0, 3.0, 2.0, 0.0, 1500.0, 2.0)]
    arr = np.array(evs, dtype=float)
    cols = [arr[:, i].copy() for i in (0, 2, 1, 3, 4, 5)]  # beta, altDec, lenDec, theta, path length, shower energy

    def rcall(*a):
        with own.RngStub(fn=lambda idx, n: np.full(n, 0.37)).installed(), own.quiet(), np.errstate(all="ignore"):
            return EASRadio(cfg)(*a)

    if not snr:
        return forms.judge(rcall, cols, tuple(f), what="EASRadio.__call__")
    ef = np.asarray(rcall(*cols), dtype=float)
    with np.errstate(all="ignore"):
        return forms.judge(lambda e: calculate_snr(e, (30.0, 300.0), 525.0, 10, 1.8), [ef], tuple(f), what="calculate_snr")


SCAN_STEPS = [("band", 30, 300), ("band", 300, 1000), ("band", 330, 600), ("band", 30, 80), ("alt", 33.0), ("alt", 525.0), ("iono", False), ("nant", 4), ("refused", 100.0, float("nan")), ("refused", 100.0, float("inf"))]  # ("refused": a call with an unusable band that must fail, after which the band is put back)


def judge_scan(seq):
    """ONE EASRadio object on ONE live configuration that is changed in place between calls (a band / altitude scan):
    after every step the fields equal those of a fresh object built from a fresh configuration with the same values, bin
    for bin, and the SNR is computable and finite. The fresh objects' results are computed first; the history then runs
    with no other production call in between."""
    from nuspacesim.simulation.eas_radio.radio import EASRadio

    evs = [(math.radians(10), 20.0, alt_of(20.0, math.radians(10)), 0.02, 1500.0, 1.0), (math.radians(5), 500.0, alt_of(500.0, math.radians(5)), 0.03, 1500.0, 3.0), (math.radians(3), 900.0, 12.0, 0.02, 1500.0, 1.0)]
    tkey = [0.3, 0.7, 0.1]
    state = {"low": 30.0, "high": 300.0, "alt": 525.0, "iono": True, "nant": 10}
    states = [dict(state)]
    for i in seq:
        op = SCAN_STEPS[i]
        st = dict(states[-1])
        if op[0] == "band":
            st["low"], st["high"] = float(op[1]), float(op[2])
        elif op[0] != "refused":
            st[op[0]] = op[1]
        states.append(st)
    wants = []
    for st in states:
        fc = make_cfg(st["alt"], st["low"], st["high"], st["iono"], st["nant"])
        w, _, _, _ = call_radio(fc, evs, tkey)
        wants.append((w, snr_of(fc, w)))
    cfg = make_cfg(state["alt"], state["low"], state["high"], state["iono"], state["nant"])
    obj = EASRadio(cfg)
    for step in range(len(seq) + 1):
        if step:
            op = SCAN_STEPS[seq[step - 1]]
            st = states[step]
            if op[0] == "band":
                r = cfg.detector.radio
                # (order of the two assignments chosen so that low < high holds throughout)
                if st["low"] >= r.high_frequency:
                    r.high_frequency = st["high"]
                    r.low_frequency = st["low"]
                else:
                    r.low_frequency = st["low"]
                    r.high_frequency = st["high"]
            elif op[0] == "refused":
                r = cfg.detector.radio
                try:
                    r.high_frequency = op[2]
                    r.low_frequency = op[1]
                    call_radio(cfg, evs, tkey, obj=obj)
                except Exception:
                    pass
                finally:
                    r.low_frequency = min(st["low"], r.low_frequency) if r.low_frequency == r.low_frequency else st["low"]
                    r.high_frequency = st["high"]
                    r.low_frequency = st["low"]
            elif op[0] == "alt":
                cfg.detector.initial_position.altitude = op[1]
            elif op[0] == "iono":
                cfg.simulation.ionosphere.enable = op[1]
                cfg.simulation.ionosphere.total_electron_content = -1.0
            elif op[0] == "nant":
                cfg.detector.radio.nantennas = op[1]
        where = f"after {[SCAN_STEPS[i] for i in seq[:step]]}"
        try:
            got, _, _, _ = call_radio(cfg, evs, tkey, obj=obj)
        except Exception as ex:
            return [("scan_no_exception", f"{where}: fields", f"{type(ex).__name__}: {str(ex)[:100]}")]
        want, s2 = wants[step]
        if got.shape != want.shape:
            return [("scan_bin_count", f"{where}: {list(want.shape)}", list(got.shape))]
        if got.tobytes() != want.tobytes():
            return [("scan_fields_equal_fresh_object", f"{where}: fields of a fresh object", f"max rel diff {float(np.nanmax(np.abs(got - want) / (np.abs(want) + 1e-300))):.3g}")]
        try:
            s = snr_of(cfg, got)
        except Exception as ex:
            return [("snr_computable", f"{where}: snr", f"{type(ex).__name__}: {str(ex)[:100]}")]
        if s.shape != (len(evs),) or not np.all(np.isfinite(s)) or s.tobytes() != s2.tobytes():
            return [("scan_snr", f"{where}: {s2.tolist()}", s.tolist())]
    return []


def judge_events(alt, iono, band, evs, tier):
    low, high = band
    cfg = make_cfg(alt, low, high, iono)
    out = []
    tkey = [((i * 0.6180339887498949) % 1.0) for i in range(len(evs))]
    try:
        ef, inr, same, ncalls = call_radio(cfg, evs, tkey)
    except Exception as ex:
        return [("events_no_exception", "fields", f"{type(ex).__name__}: {ex}", None)], None
    n = len(evs)
    if ef.shape[0] != n:
        return [("row_per_event", n, list(ef.shape), None)], None
    if not same:
        out.append(("inputs_unmodified", "unchanged", "changed", None))
    snr = snr_of(cfg, ef)
    for i in range(n):
        if not inr[i]:
            if not np.all(ef[i] == 0.0):
                out.append(("out_of_range_zero_field", 0.0, float(np.abs(ef[i]).max()), i))
        else:
            if not np.all(np.isfinite(ef[i])):
                out.append(("field_finite", "finite", "non-finite", i))
            elif not np.isfinite(snr[i]):
                out.append(("snr_finite", "finite", float(snr[i]), i))
    fin = np.all(np.isfinite(ef), axis=1)
    # linear in shower energy under identical random numbers
    for kf in (0.5, 2.0, 10.0):
        ef2, _, _, _ = call_radio(cfg, evs, tkey, scaleE=kf)
        # the field is the sum of a geomagnetic and an Askaryan term of either sign: rounding is amplified by their
        # cancellation (measured up to 3e-13 relative for a factor 10), so the comparison is relative, not in ulps
        bad = fin & ~np.all(np.abs(ef2 - kf * ef) <= 1e-9 * np.abs(kf * ef) + 1e-300, axis=1)
        for i in np.where(bad)[0][:2]:
            out.append(("field_linear_in_shower_energy", f"x{kf}", "not proportional", int(i)))
    # permutation: reversed and rotated order, random numbers travel with the events
    for perm in (list(range(n))[::-1], list(range(1, n)) + [0]):
        efp, _, _, _ = call_radio(cfg, [evs[j] for j in perm], [tkey[j] for j in perm])
        back = np.empty_like(efp)
        back[perm] = efp
        bad = fin & ~np.all(back == ef, axis=1)
        for i in np.where(bad)[0][:2]:
            out.append(("event_order_independent", "same row", "differs", int(i)))
    # snr linear in field, sqrt(N) in antennas
    eff = ef[fin]
    if len(eff):
        s1 = snr_of(cfg, eff)
        for kf in (0.0, 0.5, 2.0, 10.0, 1e6):
            s2 = snr_of(cfg, kf * eff)
            if not np.all(ulps(s2, kf * s1) <= 16):
                out.append(("snr_linear_in_field", f"x{kf}", "not proportional", None))
        sN1 = snr_of(cfg, eff, nant=1)
        for N in ([1, 2, 3, 4, 9, 10, 64] if tier == "quick" else range(1, 65)):
            sN = snr_of(cfg, eff, nant=N)
            with np.errstate(all="ignore"):
                ok = np.all((ulps(sN, math.sqrt(N) * sN1) <= 16) | (sN1 == 0))
            if not ok:
                out.append(("snr_sqrt_antennas", f"N={N}", "not sqrt(N)", None))
        # the antenna count handed in as a NumPy integer scalar / 0-d array / float is the same count
        for N, form in ((16, np.int64), (9, np.int32), (4, np.uint8), (25, np.array), (4, float), (16, np.float64)):
            try:
                sN = snr_of(cfg, eff, nant=form(N))
                with np.errstate(all="ignore"):
                    ok = np.all((ulps(sN, math.sqrt(N) * sN1) <= 16) | (sN1 == 0))
            except Exception as ex:
                ok = False
            if not ok:
                out.append(("snr_sqrt_antennas", f"N={N} as {getattr(form, '__name__', form)}", "not sqrt(N)", None))
    nz = int((np.abs(ef).max(axis=1) > 1e-30).sum())
    return out, (int(inr.sum()), int((~inr).sum()), int(fin.sum()), nz)


def judge_large_batch(N):
    """a batch of N events (cycled event alphabet) forward, reversed and split: each row identical"""
    base = events("quick")
    evs = [base[(i * 7) % len(base)] for i in range(N)]
    tk = [((i * 0.6180339887498949) % 1.0) for i in range(N)]
    cfg = make_cfg(525.0, 30, 300, False)
    ef, inr, _, _ = call_radio(cfg, evs, tk)
    out = []
    efr, _, _, _ = call_radio(cfg, evs[::-1], tk[::-1])
    if not np.array_equal(efr[::-1], ef, equal_nan=True):
        bad = np.where(~np.all((efr[::-1] == ef) | (np.isnan(ef) & np.isnan(efr[::-1])), axis=1))[0]
        out.append(("event_order_independent", f"N={N} reversed", "same rows", f"rows {bad[:5].tolist()} differ"))
    h = N // 2 + 1
    e1, _, _, _ = call_radio(cfg, evs[:h], tk[:h])
    e2, _, _, _ = call_radio(cfg, evs[h:], tk[h:])
    if not np.array_equal(np.concatenate([e1, e2]), ef, equal_nan=True):
        cat = np.concatenate([e1, e2])
        bad = np.where(~np.all((cat == ef) | (np.isnan(ef) & np.isnan(cat)), axis=1))[0]
        out.append(("event_order_independent", f"N={N} split at {h}", "same rows", f"rows {bad[:5].tolist()} differ"))
    return out


def run(ctx):
    from .. import pipeline

    # wiring: the run's stored columns are this stage applied to the run's stored columns (see nssmc/pipeline.py)
    pipeline.run_in(ctx, ['radio'], ('A', 'B', 'C'))
    tier = ctx.tier
    for N in ((16392,) if tier == "quick" else (8193, 16392, 32800, 65540)):
        ctx.tick(3 * N, ("large_batch", N))
        for c, what, e, o in judge_large_batch(N):
            ctx.violation(c, {"kind": "large", "N": N}, e, o)
    step = 30 if tier == "quick" else 10
    edges = list(range(0, 1651, step))
    nb = 0
    for low, high in itertools.combinations(edges, 2):
        v = judge_band(low, high)
        nb += 1
        ctx.tick(1, ("band", low, high) if nb % 7 == 0 or high - low <= step else None)
        for c, e, o in v:
            ctx.violation(c, {"kind": "band", "low": low, "high": high}, e, o)
    # the neighbourhood of the default band and the supported ionosphere bands at the full 10 MHz resolution
    for low, high in [(30, 300), (30, 80), (300, 1000), (200, 1200), (0, 10), (1640, 1650), (0, 1650), (10, 20), (30, 40)]:
        v = judge_band(low, high)
        nb += 1
        ctx.tick(1, ("band", low, high))
        for c, e, o in v:
            ctx.violation(c, {"kind": "band", "low": low, "high": high}, e, o)
    ctx.cov["bands"] = nb
    ctx.sample({"kind": "band", "low": 30, "high": 300, "bins": 27})
    from .. import forms as _forms

    for f in _forms.product(6, per_array=("f4", "i8")):
        ctx.tick(4, ("forms", f))
        for c, e, o in judge_forms(f):
            ctx.violation(c, {"kind": "forms", "forms": list(f), "snr": False}, e, o)
    for f in (("f4",), (">f8",), (">f4",)):
        ctx.tick(4, ("forms_snr", f))
        for c, e, o in judge_forms(f, snr=True):
            ctx.violation(c, {"kind": "forms", "forms": list(f), "snr": True}, e, o)
    # call histories on one EASRadio object whose configuration is changed in place between calls
    depth = 2 if tier == "quick" else 3
    nscan = 0
    for d in range(1, depth + 1):
        for seq in itertools.product(range(len(SCAN_STEPS)), repeat=d):
            if any(a == b for a, b in zip(seq, seq[1:])):
                continue
            nscan += 1
            ctx.tick(3 * (d + 1), ("scan",) + tuple(seq))
            for c, e, o in judge_scan(seq):
                ctx.violation(c, {"kind": "scan", "seq": list(seq)}, e, o)
    ctx.cov["configuration_scan_histories"] = nscan
    evs = events(tier)
    ctx.cov["events"] = len(evs)
    ne = 0
    nonzero_rows = inrange_rows = 0
    for alt, iono, band in itertools.product([3.0, 33.0, 89.0, 91.0, 525.0], [True, False], [(30, 300), (300, 1000), (0, 1650)] if tier == "quick" else [(30, 300), (300, 1000), (30, 80), (200, 1200), (500, 510), (0, 1650), (1400, 1650)]):
        v, info = judge_events(alt, iono, band, evs, tier)
        ne += len(evs)
        ctx.tick(len(evs) * 8, ("ev", alt, iono, band, info))
        if info is not None:
            nonzero_rows += info[3]
            inrange_rows += info[0]
        seen = set()
        for c, e, o, i in v:
            if (c, i is None) in seen and len([1 for x in seen if x[0] == c]) > 3:
                continue
            seen.add((c, i))
            ev = list(evs[i]) if i is not None else None
            case = {"kind": "event", "alt": alt, "iono": iono, "band": list(band), "ev": ev, "lenDec": ev[1] if ev else None, "altDec": ev[2] if ev else None}
            if ev is None:
                case = {"kind": "events", "alt": alt, "iono": iono, "band": list(band), "tier": tier}
            ctx.violation(c, case, e, o)
    ctx.cov["event_evaluations"] = ne
    ctx.cov["in_range_rows"] = inrange_rows
    ctx.cov["rows_with_nonzero_field"] = nonzero_rows
    if nonzero_rows < 0.5 * max(inrange_rows, 1):
        ctx.note("fewer than half of the in-range events had a non-zero field: scaling clauses partly vacuous")
    k = int(ctx.rng.integers(len(evs)))
    ctx.sample({"kind": "event", "(beta, lenDec, altDec, theta, pathLen, showerEnergy)": list(evs[k])})
    ctx.sample({"kind": "event", "(beta, lenDec, altDec, theta, pathLen, showerEnergy)": list(evs[0]), "note": "zero decay length"})


def replay(case):
    if isinstance(case, dict) and case.get("kind") == "pipeline":
        from .. import pipeline

        return pipeline.replay(case)
    k = case["kind"]
    if k == "large":
        return [(c, e, o) for c, what, e, o in judge_large_batch(case["N"])]
    if k == "band":
        return judge_band(case["low"], case["high"])
    if k == "scan":
        return judge_scan(tuple(case["seq"]))
    if k == "forms":
        return judge_forms(case["forms"], case.get("snr", False))
    if k == "event":
        # the event together with a partner (order clause needs two)
        partner = (math.radians(10), 20.0, alt_of(20.0, math.radians(10)), 1.0, 1500.0, 1.0)
        v, _ = judge_events(case["alt"], case["iono"], tuple(case["band"]), [tuple(case["ev"]), partner], "quick")
        return [(c, e, o) for c, e, o, i in v if i in (0, None)]
    if k == "events":
        v, _ = judge_events(case["alt"], case["iono"], tuple(case["band"]), events(case["tier"]), case["tier"])
        return [(c, e, o) for c, e, o, i in v]
    return []
