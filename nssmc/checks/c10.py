"""C10 — batch shower evaluation is independent of the parallel schedule (E3a completion orders, E3b interleavings, faults)."""

import hashlib
import itertools
import math
import os

import numpy as np

from .. import history, own, par, schedule, sim

PID = "C10"
LEVEL = "model_checking"
RULE = (
    "(E3a) for every batch size x partition size x scheduler {synchronous, threads, processes} x worker count x chunksize "
    "of the alphabet, ALL completion orders the real dask scheduler loop can observe are enumerated (controlled executor; "
    "stateless DFS with prefix replay), first with an injective stub kernel (plumbing: loss, duplication, shift, order), "
    "then with the REAL kernel on batches whose partitions differ in energy decade and cloud site; one failing event at "
    "EVERY position of every batch must surface as an error under every scheduler and order; (E3b) two real kernel "
    "invocations on ONE shared object are interleaved at source-line granularity under ALL schedules with <= k "
    "preemptions (baton scheduler), with a deliberately racy kernel as positive control; shared-state hashes of the "
    "kernel object, the cloud object and the module globals before/after. A state is (scheduler state reached by a "
    "choice prefix); distinct = distinct complete schedules; outcomes = distinct observed results per configuration. Real-kernel batches are also run on a balloon-altitude "
    "kernel and on a kernel re-configured after construction (the process scheduler ships a pickled copy), and two events "
    "in different partitions sit either side of a cloud-map node with very different cloud tops."
)
ASSUMPTIONS = [
    "completion order is owned at the level dask's scheduler loop can observe it; pre-emption inside one numpy C call and real OS scheduling are covered only by the un-controlled conformance runs (one schedule each)",
    "batches of size 0 are outside this property's alphabet (checked through the wrapper in C08/C11/C14)",
    "line-granular cooperative interleaving: torn reads inside a single bytecode/numpy call are not modelled",
]

SRC = None


def src_prefix():
    global SRC
    if SRC is None:
        import nuspacesim

        SRC = os.path.dirname(nuspacesim.__file__)
    return SRC


def _stub_cls():
    from nuspacesim.simulation.eas_optical.cphotang import CphotAng

    class StubKernel(CphotAng):
        """injective cheap kernel: any loss, duplication, shift or reorder of events is visible bit for bit"""

        def run(self, betaE, alt, Eshow100PeV, lat, long, cloudf=None):
            if Eshow100PeV < 0:
                # the kind of failure is encoded in the marker value: -1 RuntimeError, -2 IndexError, -3 StopIteration, ...
                raise FAULT_TYPES[int(round(-Eshow100PeV)) - 1](f"injected failure at event beta={betaE}")
            a = float(betaE) * 1000.0 + float(alt) * 7.0 + float(Eshow100PeV) * 13.0 + float(lat) * 17.0 + float(long) * 19.0
            if cloudf:  # like the real kernel, the cloud model is consulted once per event, at the event's site
                a += 23.0 * float(cloudf(lat, long))
            return np.float64(a), np.float64(a * 0.5 + 1.0)

    return StubKernel


FAULT_TYPES = [RuntimeError, IndexError, StopIteration, KeyError, ZeroDivisionError, FloatingPointError]
_STUB = None


def stub_kernel():
    global _STUB
    if _STUB is None:
        _STUB = _stub_cls()
        _STUB.__module__ = __name__
        _STUB.__qualname__ = "StubKernelClass"
        globals()["StubKernelClass"] = _STUB
    return _STUB(525.0)


def batch(n, fail_at=None, fault=0):
    # deliberately NOT monotone in any argument (and not a self-inverse permutation of a sorted batch): a sort /
    # re-ordering inside the batch call with a wrong un-permutation must be visible
    b = np.array([0.02 + 0.001 * ((i * 7919 + 13) % 1009) for i in range(n)])
    a = np.array([1.0 + 0.01 * ((i * 104729 + 7) % 997) for i in range(n)])
    E = np.array([0.5 + 0.25 * ((i * 1299709 + 3) % 991) for i in range(n)])
    la = np.array([0.1 * i for i in range(n)])
    lo = np.array([0.2 * i for i in range(n)])
    # degenerate compositions: the last event is a bit-identical copy of the first (a de-duplicating batch call must
    # scatter its results back to every copy), and two events tie in the emergence angle only
    if n >= 3:
        for x in (b, a, E, la, lo):
            x[n - 1] = x[0]
    if n >= 5:
        b[n - 2] = b[1]
    if fail_at is not None:
        E[fail_at] = -1.0 - fault
    return b, a, E, la, lo


class SiteCloud:
    """cloud callback whose value depends on the site; optionally fails at one site (fault injection through the
    cloud lookup rather than through the kernel)"""

    def __init__(self, fail_lat=None, fault=0):
        self.fail_lat = fail_lat
        self.fault = fault

    def __call__(self, lat, long, *a, **k):
        if self.fail_lat is not None and float(lat) == self.fail_lat:
            raise FAULT_TYPES[self.fault](f"injected cloud-lookup failure at lat={lat}")
        return np.single(0.5 + float(lat) - 0.25 * float(long))


class part_size:
    """the property quantifies over partition size: proxy dask.bag.from_sequence"""

    def __init__(self, ps):
        self.ps = ps

    def __enter__(self):
        import dask.bag as db

        self.db = db
        self.real = db.from_sequence
        if self.ps is not None:
            ps = self.ps

            def from_sequence(seq, partition_size=None, npartitions=None):
                return self.real(seq, partition_size=ps)

            db.from_sequence = from_sequence
        return self

    def __exit__(self, *a):
        self.db.from_sequence = self.real
        return False


def digest(res):
    if isinstance(res, str):
        return res
    d, c = res
    h = hashlib.sha256()
    for x in (d, c):
        x = np.asarray(x)
        h.update(str(x.dtype).encode() + str(x.shape).encode() + np.ascontiguousarray(x).tobytes())
    return h.hexdigest()[:20]


def run_batch(kernel, args, cloudf, scheduler, workers, chunksize, ps, chooser):
    """one complete execution of the real CphotAng.__call__ under one schedule; returns digest or 'raised ...'"""
    import dask

    with own.null_progress(), part_size(ps), np.errstate(all="ignore"):
        try:
            if scheduler == "synchronous":
                with dask.config.set(scheduler="synchronous"):
                    r = kernel(*args, cloudf)
            else:
                with schedule.controlled_dask(scheduler, workers, chooser, chunksize):
                    r = kernel(*args, cloudf)
        except schedule.ReplayDivergence:
            raise
        except BaseException as ex:
            return f"raised {type(ex).__name__}"
    return digest(r)


def sequential(kernel, args, cloudf):
    """the reference: one event at a time. `kernel` / `cloudf` may be factories (real kernel, real cloud models): then
    EVERY event is evaluated by a fresh kernel object with a fresh cloud object, so that nothing an earlier event left
    behind can reach a later one (the batch call, which shares one object, is compared with this)."""
    out = []
    with np.errstate(all="ignore"):
        for x in zip(*args):
            k = kernel() if isinstance(kernel, type(sequential)) else kernel
            c = cloud(cloudf) if isinstance(cloudf, str) else cloudf
            out.append(k.run(*x, c))
    d, c = zip(*out)
    return digest((np.asarray(d), np.array(c)))


def sched_alphabet(nparts, tier):
    out = [("synchronous", 1, 1)]
    wmax = 4 if tier == "thorough" else (3 if nparts <= 3 else 2)
    for sch in ("threads", "processes"):
        for w in range(1, wmax + 1):
            for cs in (1, 6):
                if cs == 6 and w not in (1, 2):
                    continue
                out.append((sch, w, cs))
    return out


def explore_config(make_kernel, args, cloudf, sch, w, cs, ps, expect, expect_raise=False, cap=None, aftermath=None):
    """aftermath: the digest a cloud-free batch must give; when the explored batch raised, the SAME kernel object is then
    called once more, synchronously and with no cloud callback, and must give exactly that (nothing the failed batch
    installed on the kernel - its cloud model, say - may linger)"""

    def run(ch):
        k = make_kernel()
        o = run_batch(k, args, cloudf, sch, w, cs, ps, ch)
        if aftermath is not None and o.startswith("raised"):
            o2 = run_batch(k, args, None, "synchronous", 1, 1, ps, None)
            if o2 != aftermath:
                return "after the failed batch the same kernel, cloud-free: " + str(o2)[:60]
        return o

    n, obs, capped = schedule.explore_all(run, max_execs=cap)
    bad = []
    outcomes = {}
    for choices, o in obs:
        outcomes[o] = outcomes.get(o, 0) + 1
        ok = o.startswith("raised") if expect_raise else (o == expect)
        if not ok:
            bad.append((choices, o))
    return n, outcomes, bad, capped


# ---- real-kernel batches -----------------------------------------------------------------------

def real_events():
    """partitions differ in energy decade, decay altitude and cloud site; events 1, 2 and 6 share one track geometry (same
    number of steps, same intermediate array shapes) with ascending energy: within one partition (partition size 3) and
    across partitions (partition sizes 1, 2)"""
    b = np.array([math.radians(x) for x in (5.0, 20.0, 20.0, 1.0, 35.0, 10.0, 20.0)])
    a = np.array([2.0, 2.0, 2.0, 0.5, 4.0, 12.0, 2.0])
    E = np.array([0.003, 1.0, 10.0, 40.0, 0.2, 700.0, 1.0])
    # events 0 and 3 (different partitions for every partition size) sit 0.1 degree either side of the 27 N node of the
    # cloud map at 52.70 E: in the month-7 map one cell is clear (-1.42 km) and the other overcast (16.78 km), so a cloud
    # lookup that remembers anything between events - a memo on rounded coordinates, say - serves one of them the other's
    # cloud top whenever the two partitions run on one shared callback object
    la = np.array([math.radians(26.9), -0.9, -0.9, math.radians(27.1), 1.2, -0.3, -0.9])
    lo = np.array([math.radians(52.70434782608696), 2.5, 2.5, math.radians(52.70434782608696), 0.7, -2.8, 2.5])  # (event 6 is a bit-identical copy of event 1)
    return b, a, E, la, lo


NREAL = 7


def cloud(kind):
    from nuspacesim.simulation.atmosphere.clouds import CloudTopHeight

    if kind == "none":
        return None
    if kind == "mono":
        return CloudTopHeight(sim.make_config(cloud="mono"))
    return CloudTopHeight(sim.make_config(cloud="map"))


def real_kernel():
    from nuspacesim.simulation.eas_optical.cphotang import CphotAng

    return CphotAng(525.0)


def real_kernel_33():
    """a kernel for a balloon detector (everything but the reference orbit goes through the altitude scaling)"""
    from nuspacesim.simulation.eas_optical.cphotang import CphotAng

    return CphotAng(33.0)


def real_kernel_step():
    """a kernel re-configured after construction (coarser shower step): what travels to a worker is THIS object"""
    from nuspacesim.simulation.eas_optical.cphotang import CphotAng

    k = CphotAng(525.0)
    k.dL = k.dtype(0.2)
    return k


KERNELS = {"": real_kernel, "33km": real_kernel_33, "step": real_kernel_step}


OWNED = [("mono", 3), ("mono", 1), ("map", 3), ("map", 2), ("none", 3)]


def judge_owned_kernel(ck, ps):
    """the kernel as an optical stage owns it (configured with a cloud model), its batch entry point called with the
    cloud callback OMITTED: bit for bit the events one at a time with no callback (the configuration's cloud model
    reaches the kernel through the callback argument only)"""
    import dask

    from nuspacesim.simulation.eas_optical.eas import EAS

    args = real_events()
    exp = sequential(real_kernel, args, "none")
    k = EAS(sim.make_config(cloud=ck)).CphotAng
    with own.null_progress(), part_size(ps), np.errstate(all="ignore"), dask.config.set(scheduler="synchronous"):
        try:
            got = digest(k(*args))
        except BaseException as ex:
            got = f"raised {type(ex).__name__}"
    return [] if got == exp else [("batch_equals_one_at_a_time", exp, got)]


# ---- E3b -----------------------------------------------------------------------------------------

def racy_kernel():
    """positive control: parks an intermediate on self between two steps of run()"""
    from nuspacesim.simulation.eas_optical.cphotang import CphotAng

    class Racy(CphotAng):
        def theta_view(self, ThetProp):
            self._tv = super().theta_view(ThetProp)
            return self._tv

        def d_to_det(self, ThetView, ThetPrpA, zs):
            return super().d_to_det(self._tv, ThetPrpA, zs)

    return Racy(525.0)


PAIRS = [
    ((math.radians(5.0), 2.0, 0.003, 0.1, 0.2), (math.radians(20.0), 8.0, 40.0, -0.9, 2.5)),
    ((math.radians(1.0), 0.5, 700.0, 0.5, -1.0), (math.radians(35.0), 12.0, 0.2, 1.2, 0.7)),
    ((math.radians(10.0), 4.0, 2.0, -0.3, -2.8), (math.radians(10.0), 4.0, 2.0, -0.3, -2.8)),
    ((math.radians(20.0), 2.0, 1.0, 0.1, 0.2), (math.radians(20.0), 2.0, 10.0, 0.1, 0.2)),  # same track, ascending energy
]


def interleave(pair, cloud_kind, bound, make=real_kernel, cap=None):
    ev = PAIRS[pair]
    with np.errstate(all="ignore"):  # one at a time: a fresh kernel and a fresh cloud object per event
        exp = tuple(digest(tuple(np.asarray(v) for v in real_kernel().run(*e, cloud(cloud_kind)))) for e in ev)

    def make_bodies():
        k = make()
        c = cloud(cloud_kind)

        def body(e):
            def f():
                with np.errstate(all="ignore"):
                    return digest(tuple(np.asarray(v) for v in k.run(*e, c)))

            return f

        return [body(ev[0]), body(ev[1])]

    def observe(res, errs):
        return tuple(r if e is None else f"raised {type(e).__name__}" for r, e in zip(res, errs))

    r = schedule.explore_preemption_bounded(make_bodies, src_prefix(), bound, observe, max_execs=cap)
    bad = {o: r["examples"][o] for o in r["outcomes"] if o != exp}
    return r, exp, bad


def _interleave_job(a):
    pair, ck, bound, racy, cap = a
    r, exp, bad = interleave(pair, ck, bound, racy_kernel if racy else real_kernel, cap)
    return dict(pair=pair, cloud=ck, bound=bound, racy=racy, execs=r["execs"], outcomes=len(r["outcomes"]), max_points=r["max_points"], capped=r["capped"], bad={str(k): v for k, v in bad.items()}, nbad=sum(r["outcomes"][o] for o in r["outcomes"] if o != exp))


def shared_state_hash(k, cl):
    import nuspacesim.simulation.eas_optical.cphotang as cp

    g = {n: v for n, v in vars(cp).items() if not n.startswith("__") and not callable(v) and not isinstance(v, type(os))}
    return history.canon(k), history.canon(cl) if cl is not None else "", history.canon(g)


def fault_setup(n, fail_at):
    """fail_at: None | int (kernel fault) | "k<pos>:<type>" kernel fault of a given exception type | "c<pos>[:<type>]" fault
    in the cloud lookup of event pos"""
    if isinstance(fail_at, str):
        kind = fail_at[0]
        body, _, ft = fail_at[1:].partition(":")
        pos, ft = int(body), int(ft or 0)
        if kind == "c":
            args = batch(n)
            return args, SiteCloud(fail_lat=float(args[3][pos]), fault=ft)
        return batch(n, fail_at=pos, fault=ft), (SiteCloud() if (n % 2 == 1) else None)
    return batch(n, fail_at=fail_at), (SiteCloud() if (n % 2 == 1) else None)


def _plumb_job(a):
    n, ps, sch, w, cs, fail_at, cap = a
    args, cl = fault_setup(n, fail_at)
    nparts = math.ceil(n / (ps or 100))
    exp = None if fail_at is not None else sequential(stub_kernel(), args, cl)
    nex, outcomes, bad, capped = explore_config(stub_kernel, args, cl, sch, w, cs, ps, exp, expect_raise=fail_at is not None, cap=cap)
    return dict(n=n, ps=ps, sch=sch, w=w, cs=cs, fail_at=fail_at, nparts=nparts, nex=nex, outcomes=len(outcomes), bad=bad[:3], capped=capped, exp=exp)


def _real_job(a):
    ck, ps, sch, w, cs, cap = a
    args = real_events()
    if isinstance(ck, str) and ck.startswith("fault:"):
        # a failing cloud lookup at event `pos` with exception type `ft`, through the REAL kernel's run()
        _, pos, ft = ck.split(":")
        cl = SiteCloud(fail_lat=float(args[3][int(pos)]), fault=int(ft))
        nex, outcomes, bad, capped = explore_config(real_kernel, args, cl, sch, w, cs, ps, None, expect_raise=True, cap=cap, aftermath=sequential(real_kernel, args, "none"))
        return dict(ck=ck, ps=ps, sch=sch, w=w, cs=cs, nex=nex, outcomes=len(outcomes), bad=bad[:3], capped=capped, exp="the batch call raises", nparts=math.ceil(NREAL / ps))
    ck0, _, kv = ck.partition("@")
    exp = sequential(KERNELS[kv], args, ck0)
    nex, outcomes, bad, capped = explore_config(KERNELS[kv], args, cloud(ck0), sch, w, cs, ps, exp, cap=cap)
    return dict(ck=ck, ps=ps, sch=sch, w=w, cs=cs, nex=nex, outcomes=len(outcomes), bad=bad[:3], capped=capped, exp=exp, nparts=math.ceil(NREAL / ps))


def run(ctx):
    tier = ctx.tier
    states = trans = 0
    # ---- E3a plumbing with the stub kernel (+ faults: one failing event at every position)
    sizes_small = [(n, ps) for n in range(1, 8) for ps in (1, 2, 3) if math.ceil(n / ps) <= (4 if tier == "quick" else 5)]
    sizes_real = [(n, None) for n in ([1, 99, 100, 101, 199, 200, 201, 301, 350] if tier == "thorough" else [1, 100, 101, 200, 201, 350])]
    jobs = []
    for n, ps in sizes_small + sizes_real:
        nparts = math.ceil(n / (ps or 100))
        for sch, w, cs in sched_alphabet(nparts, tier):
            jobs.append((n, ps, sch, w, cs, None, 3000))
    # batches of more than ten partitions (> 1000 events): the synchronous scheduler and ONE threaded worker (a single
    # completion order each); two workers only in the thorough tier, capped (the completion orders of 12 partitions
    # cannot be enumerated; the cap is reported)
    for n in ((1001, 1130) if tier == "quick" else (1001, 1099, 1130, 2101)):
        jobs.append((n, None, "synchronous", 1, 1, None, 1))
        jobs.append((n, None, "threads", 1, 1, None, 1))
        if tier == "thorough":
            jobs.append((n, None, "threads", 2, 1, None, 40))
    nplumb = len(jobs)
    for n, ps in [(n, ps) for n, ps in sizes_small if n <= (5 if tier == "quick" else 7)] + [(101, None), (201, None)]:
        nparts = math.ceil(n / (ps or 100))
        positions = range(n) if n <= 7 else [0, 1, 50, 99, 100, n - 1]
        for pos in positions:
            for sch, w, cs in sched_alphabet(nparts, tier):
                if cs == 6 and n <= 7:
                    continue
                jobs.append((n, ps, sch, w, cs, pos, 600))
                if sch != "processes" or w == 2:
                    jobs.append((n, ps, sch, w, cs, f"c{pos}", 600))
                # every exception type of the alphabet, through the kernel and through the cloud lookup
                if w <= 2 and cs == 1 and (n <= 4 or n > 7):
                    for ft in range(1, len(FAULT_TYPES)):
                        jobs.append((n, ps, sch, w, cs, f"k{pos}:{ft}", 200))
                        jobs.append((n, ps, sch, w, cs, f"c{pos}:{ft}", 200))
    res = par.pmap(_plumb_job, jobs)
    nf = 0
    for r in res:
        states += r["nex"]
        trans += r["nex"] * max(r["nparts"], 1)
        if r["fail_at"] is None:
            ctx.tick(r["nex"], ("plumb", r["n"], r["ps"], r["sch"], r["w"], r["cs"], r["outcomes"]))
            clause, exp = "batch_equals_one_at_a_time", r["exp"]
        else:
            nf += r["nex"]
            fa = r["fail_at"]
            fpos = int(fa[1:].partition(":")[0]) if isinstance(fa, str) else fa
            ctx.tick(r["nex"], ("fault", str(fa)[0] if isinstance(fa, str) else "k", str(fa).partition(":")[2], r["n"], r["ps"], fpos if r["n"] <= 7 else min(fpos, 101), r["sch"], r["w"]))
            clause, exp = "failure_surfaces_as_error", "the batch call raises"
        if r["capped"]:
            ctx.cap(f"plumbing n={r['n']} ps={r['ps']} {r['sch']} w={r['w']} cs={r['cs']} fail_at={r['fail_at']}: stopped after {r['nex']} executions")
        for choices, o in r["bad"]:
            ctx.violation(clause, {"kind": "plumb", "n": r["n"], "ps": r["ps"], "sch": r["sch"], "w": r["w"], "cs": r["cs"], "choices": choices, "fail_at": r["fail_at"]}, exp, o)
    ctx.cov["plumbing_configurations"] = nplumb
    ctx.cov["fault_configurations"] = len(jobs) - nplumb
    ctx.cov["fault_executions"] = nf
    ctx.sample({"kind": "plumbing", "batch": 7, "partition_size": 2, "scheduler": "threads", "workers": 3, "completion_order_choices": [1, 0, 2, 0]})
    ctx.sample({"kind": "fault", "batch": 5, "partition_size": 2, "failing_position": 3, "scheduler": "processes", "workers": 2})
    # ---- E3a with the REAL kernel: partitions differ in energy decade and cloud site
    jobs = []
    for ck in ("none", "mono", "map"):
        for ps in ((3, 2) if tier == "quick" else (3, 2, 1)):
            for sch, w, cs in [("synchronous", 1, 1), ("threads", 2, 1), ("processes", 2, 1), ("threads", 3, 1), ("processes", 3, 1)]:
                if tier == "quick" and ps == 2 and w == 3:
                    continue  # (4 partitions x 3 workers: 846 completion orders; thorough tier)
                jobs.append((ck, ps, sch, w, cs, 1000 if tier == "quick" else 3000))
    # other kernel objects: a balloon-altitude kernel and one re-configured after construction, under each scheduler
    # family (the process scheduler ships a pickled copy of the object with every partition)
    for kv in ("33km", "step"):
        for ck in (("none", "map") if tier == "quick" else ("none", "mono", "map")):
            for sch, w, cs in [("synchronous", 1, 1), ("threads", 2, 1), ("processes", 2, 1)]:
                jobs.append((f"{ck}@{kv}", 3, sch, w, cs, 1000))
    for pos in range(NREAL):
        for ft in range(len(FAULT_TYPES)):
            for sch, w in (("synchronous", 1), ("threads", 2)):
                jobs.append((f"fault:{pos}:{ft}", 2, sch, w, 1, 100))
    res = par.pmap(_real_job, jobs)
    nr = 0
    for r in res:
        nr += r["nex"]
        states += r["nex"]
        trans += r["nex"] * r["nparts"]
        ctx.tick(r["nex"] * NREAL, ("real", r["ck"], r["ps"], r["sch"], r["w"], r["outcomes"]))
        if r["capped"]:
            ctx.cap(f"real kernel {r['ck']} ps={r['ps']} {r['sch']} w={r['w']}: stopped after {r['nex']} executions")
        for choices, o in r["bad"]:
            clause = "failure_surfaces_as_error" if str(r["ck"]).startswith("fault:") else "batch_equals_one_at_a_time"
            ctx.violation(clause, {"kind": "real", "cloud": r["ck"], "ps": r["ps"], "sch": r["sch"], "w": r["w"], "cs": r["cs"], "choices": choices}, r["exp"], o)
    ctx.cov["real_kernel_executions"] = nr
    for ck, ps in OWNED:
        ctx.tick(NREAL, ("owned_kernel", ck, ps))
        for c, e, o in judge_owned_kernel(ck, ps):
            ctx.violation(c, {"kind": "owned", "cloud": ck, "ps": ps}, e, o)
    args = real_events()
    for ck in ("none", "mono", "map"):
        cl = cloud(ck)
        k = real_kernel()
        h0 = shared_state_hash(k, cl)
        sequential(k, args, cl)
        h1 = shared_state_hash(k, cl)
        ctx.tick(1, ("state_hash", ck, h0 == h1))
        if h0 != h1:
            ctx.note(f"kernel/cloud/module state changed across invocations (cloud={ck}): kernel {h0[0] != h1[0]} cloud {h0[1] != h1[1]} module {h0[2] != h1[2]}")
    # ---- un-controlled conformance runs: real thread pool / real processes / real ProgressBar
    import dask

    for sch in ("threads", "processes"):
        try:
            with dask.config.set(scheduler=sch, num_workers=3), np.errstate(all="ignore"), own.quiet():
                r = real_kernel()(*args, cloud("map"))
            o = digest(r)
        except BaseException as ex:
            o = f"raised {type(ex).__name__}: {ex}"
        exp = sequential(real_kernel, args, "map")
        ctx.tick(NREAL, ("uncontrolled", sch))
        ctx.traces += 1
        if o != exp:
            ctx.violation("batch_equals_one_at_a_time", {"kind": "uncontrolled", "sch": sch}, exp, o)
    # ---- E3b: interleavings of two real kernel invocations on one object
    bound = 1 if tier == "quick" else 2
    cap = None if tier == "quick" else 40000
    jobs = []
    for pair in range(len(PAIRS)):
        for ck in (("none", "map") if tier == "quick" else ("none", "mono", "map")):
            jobs.append((pair, ck, bound, False, cap))
    jobs.append((0, "none", 1, True, None))  # positive control
    res = par.pmap(_interleave_job, jobs)
    canary = None
    tot = 0
    for r in res:
        if r["racy"]:
            canary = r
            continue
        tot += r["execs"]
        states += r["execs"]
        trans += r["execs"] * r["max_points"]
        ctx.tick(r["execs"], ("il", r["pair"], r["cloud"], r["outcomes"]))
        if r["capped"]:
            ctx.cap(f"interleaving pair={r['pair']} cloud={r['cloud']} bound={r['bound']}: stopped after {r['execs']} schedules")
        for o, choices in list(r["bad"].items())[:3]:
            ctx.violation("interleaving_independent", {"kind": "il", "pair": r["pair"], "cloud": r["cloud"], "choices": choices}, "both results equal the one-at-a-time results", o)
    ctx.cov["interleaving"] = {"preemption_bound": bound, "schedules": tot, "max_scheduling_points": max(r["max_points"] for r in res), "per_job": [{k: r[k] for k in ("pair", "cloud", "execs", "outcomes", "capped")} for r in res if not r["racy"]]}
    ctx.cov["canary_detected"] = bool(canary and canary["nbad"] > 0)
    ctx.cov["canary"] = {"schedules": canary["execs"], "violating_schedules": canary["nbad"], "distinct_outcomes": canary["outcomes"]} if canary else None
    if not (canary and canary["nbad"] > 0):
        ctx.note("positive control (racy kernel) was NOT detected: the baton scheduler is not exercising the interleavings")
        ctx.exhaustive = False
    ctx.states = states
    ctx.transitions = trans
    ctx.traces += states
    ctx.sample({"kind": "interleaving", "pair": [list(PAIRS[0][0]), list(PAIRS[0][1])], "preemption_bound": bound, "schedule_choices_example": [0, 0, 0, 1]})


def replay(case):
    k = case["kind"]
    if k == "owned":
        return judge_owned_kernel(case["cloud"], case["ps"])
    if k == "plumb":
        fa = case["fail_at"]
        args, cl = fault_setup(case["n"], fa)
        ch = schedule.Chooser(case["choices"])
        o = run_batch(stub_kernel(), args, cl, case["sch"], case["w"], case["cs"], case["ps"], ch)
        if fa is not None:
            return [] if o.startswith("raised") else [("failure_surfaces_as_error", "the batch call raises", o)]
        exp = sequential(stub_kernel(), args, cl)
        return [] if o == exp else [("batch_equals_one_at_a_time", exp, o)]
    if k == "real":
        args = real_events()
        if str(case["cloud"]).startswith("fault:"):
            _, pos, ft = case["cloud"].split(":")
            cl = SiteCloud(fail_lat=float(args[3][int(pos)]), fault=int(ft))
            ch = schedule.Chooser(case["choices"])
            k = real_kernel()
            o = run_batch(k, args, cl, case["sch"], case["w"], case["cs"], case["ps"], ch)
            if o.startswith("raised"):
                o2 = run_batch(k, args, None, "synchronous", 1, 1, case["ps"], None)
                if o2 != sequential(real_kernel, args, "none"):
                    return [("failure_surfaces_as_error", "after the failed batch the same kernel, cloud-free, gives the cloud-free result", str(o2)[:60])]
            return [] if o.startswith("raised") else [("failure_surfaces_as_error", "the batch call raises", o)]
        ck0, _, kv = str(case["cloud"]).partition("@")
        cl = cloud(ck0)
        exp = sequential(KERNELS[kv], args, ck0)
        ch = schedule.Chooser(case["choices"])
        o = run_batch(KERNELS[kv](), args, cl, case["sch"], case["w"], case["cs"], case["ps"], ch)
        return [] if o == exp else [("batch_equals_one_at_a_time", exp, o)]
    if k == "uncontrolled":
        import dask

        args = real_events()
        with dask.config.set(scheduler=case["sch"], num_workers=3), np.errstate(all="ignore"), own.quiet():
            o = digest(real_kernel()(*args, cloud("map")))
        exp = sequential(real_kernel, args, "map")
        return [] if o == exp else [("batch_equals_one_at_a_time", exp, o)]
    if k == "il":
        ev = PAIRS[case["pair"]]
        with np.errstate(all="ignore"):
            exp = tuple(digest(tuple(np.asarray(v) for v in real_kernel().run(*e, cloud(case["cloud"])))) for e in ev)

        def make_bodies():
            kk = real_kernel()
            c = cloud(case["cloud"])
            return [lambda e=e: digest(tuple(np.asarray(v) for v in kk.run(*e, c))) for e in ev]

        def observe(res, errs):
            return tuple(r if e is None else f"raised {type(e).__name__}" for r, e in zip(res, errs))

        with np.errstate(all="ignore"):
            o, _ = schedule.replay_schedule(make_bodies, src_prefix(), case["choices"], observe)
        return [] if o == exp else [("interleaving_independent", exp, o)]
    return []
