"""Floating-point alphabets: ulp neighbourhoods, unit-interval edge values."""
import math

import numpy as np


def nbrs(x, k=1, dtype=np.float64):
    """x and its k neighbours on each side."""
    x = dtype(x)
    out = [x]
    lo = hi = x
    for _ in range(k):
        lo = np.nextafter(lo, dtype(-np.inf))
        hi = np.nextafter(hi, dtype(np.inf))
        out += [lo, hi]
    return sorted(set(float(v) for v in out))


def ulp_ball(x, k):
    """every double within +-k ulp of x"""
    x = np.float64(x)
    out = [x]
    lo = hi = x
    for _ in range(k):
        lo = np.nextafter(lo, -np.inf)
        hi = np.nextafter(hi, np.inf)
        out += [lo, hi]
    return np.array(sorted(set(out)))


def unit_edges(closed=True):
    """edge alphabet of the unit interval"""
    e = [5e-324, 1e-300, 2.0**-53, 1e-9, 1 - 1e-9, 1 - 2.0**-53]
    if closed:
        e = [0.0] + e + [1.0]
    return e


def midgrid(m):
    return (np.arange(m) + 0.5) / m


def ulps(a, b):
    """distance in ulps between doubles (arrays)"""
    a = np.asarray(a, dtype=np.float64)
    b = np.asarray(b, dtype=np.float64)
    ia = a.view(np.int64).copy()
    ib = b.view(np.int64).copy()
    ia = np.where(ia < 0, np.int64(-(2**63)) - ia, ia)
    ib = np.where(ib < 0, np.int64(-(2**63)) - ib, ib)
    return np.abs(ia - ib)


def hexf(x):
    return float(x).hex()
