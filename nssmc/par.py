"""Deterministic fork-based parallel map: the covered set never depends on the worker count."""

import concurrent.futures as cf
import multiprocessing as mp
import os

_FN = None
_ITEMS = None


def _call(i):
    return i, _FN(_ITEMS[i])


def pmap(fn, items, procs=None):
    """ordered map over items in forked, NON-daemonic workers (fn and items are inherited through fork, nothing is
    pickled in; workers may start child processes of their own, e.g. a real dask `processes` pool)."""
    global _FN, _ITEMS
    items = list(items)
    if procs is None:
        procs = min(16, os.cpu_count() or 1, max(1, len(items)))
    if procs <= 1 or len(items) <= 1:
        return [fn(x) for x in items]
    _FN, _ITEMS = fn, items
    with cf.ProcessPoolExecutor(max_workers=procs, mp_context=mp.get_context("fork")) as pool:
        res = list(pool.map(_call, range(len(items)), chunksize=1))
    res.sort(key=lambda t: t[0])
    return [r for _, r in res]


def _iso_child(conn, fn, item):
    try:
        conn.send(("ok", fn(item)))
    except BaseException as ex:  # reported to the parent, which re-raises
        import traceback

        conn.send(("raised", f"{type(ex).__name__}: {ex}\n{traceback.format_exc()}"))
    finally:
        conn.close()


def pmap_isolated(fn, items, procs=None):
    """ordered map in which EVERY item runs in a forked child of its own (the child starts from the parent's state at the
    time of the call and nothing an item leaves behind in its process -- class-level or module-level memos -- reaches
    another item). Call it before the parent itself has exercised the code under test."""
    items = list(items)
    procs = procs or min(16, os.cpu_count() or 1)
    ctx = mp.get_context("fork")
    out = [None] * len(items)
    for lo in range(0, len(items), procs):
        live = []
        for i in range(lo, min(lo + procs, len(items))):
            a, b = ctx.Pipe(duplex=False)
            p = ctx.Process(target=_iso_child, args=(b, fn, items[i]))
            p.start()
            b.close()
            live.append((i, p, a))
        for i, p, a in live:
            try:
                st, val = a.recv()
            except EOFError:
                st, val = "raised", "child died without a result"
            p.join()
            if st != "ok":
                raise RuntimeError(f"isolated job {i} failed: {val}")
            out[i] = val
    return out
