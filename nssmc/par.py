"""Deterministic fork-based parallel map: the covered set never depends on the worker count."""

import concurrent.futures as cf
import multiprocessing as mp
import os

_FN = None
_ITEMS = None


def _call(i):
    return i, _FN(_ITEMS[i])


def pmap(fn, items, procs=None):
    """ordered map over items in forked, NON-daemonic workers (fn and items are inherited through fork, nothing is
    pickled in; workers may start child processes of their own, e.g. a real dask `processes` pool)."""
    global _FN, _ITEMS
    items = list(items)
    if procs is None:
        procs = min(16, os.cpu_count() or 1, max(1, len(items)))
    if procs <= 1 or len(items) <= 1:
        return [fn(x) for x in items]
    _FN, _ITEMS = fn, items
    with cf.ProcessPoolExecutor(max_workers=procs, mp_context=mp.get_context("fork")) as pool:
        res = list(pool.map(_call, range(len(items)), chunksize=1))
    res.sort(key=lambda t: t[0])
    return [r for _, r in res]
