"""Build the zsteps shim from /repo's CURRENT src/zsteps.cpp (cached by the source's SHA-256 under /verif/build)."""
import ctypes
import hashlib
import os
import subprocess
import sys

import numpy as np

HERE = os.path.dirname(os.path.abspath(__file__))
ROOT = os.path.dirname(os.path.dirname(HERE))
BUILD = os.path.join(ROOT, "build")
PINNED_SHA = "ab68307b825994f8b0d8ad1e94b1f50f7ae6e37481a1c2a7a8e5577357c83e68"


def source_path():
    import nuspacesim

    return os.path.join(os.path.dirname(nuspacesim.__file__), "simulation", "eas_optical", "src", "zsteps.cpp")


def source_sha():
    return hashlib.sha256(open(source_path(), "rb").read()).hexdigest()


def build():
    os.makedirs(BUILD, exist_ok=True)
    sha = source_sha()
    so = os.path.join(BUILD, f"zsteps_shim_{sha[:16]}.so")
    if not os.path.exists(so):
        tmp = so + f".tmp{os.getpid()}"
        cmd = ["g++", "-O2", "-std=c++17", "-shared", "-fPIC", "-ffp-contract=off", f"-I{HERE}", f'-DZSTEPS_SOURCE="{source_path()}"', os.path.join(HERE, "driver.cpp"), "-o", tmp]
        r = subprocess.run(cmd, capture_output=True, text=True)
        if r.returncode != 0:
            raise RuntimeError("zsteps shim build failed:\n" + r.stderr[-2000:])
        os.replace(tmp, so)
    return so, sha


_LIB = None


def load():
    global _LIB
    if _LIB is None:
        so, sha = build()
        lib = ctypes.CDLL(so)
        lib.zsteps_double.restype = ctypes.c_int
        lib.zsteps_double.argtypes = [ctypes.c_double] * 7 + [ctypes.POINTER(ctypes.c_double), ctypes.POINTER(ctypes.c_double), ctypes.c_int]
        _LIB = (lib, sha)
    return _LIB


def zsteps(z, sinThetView, RadE, zMaxZ, zmax, dL, pi):
    """drop-in for cphotang.cppzsteps (always the double instantiation, like pybind11 for numpy scalars)"""
    lib, _ = load()
    cap = 4096
    while True:
        a = np.empty(cap, dtype=np.float64)
        b = np.empty(cap, dtype=np.float64)
        n = lib.zsteps_double(float(z), float(sinThetView), float(RadE), float(zMaxZ), float(zmax), float(dL), float(pi), a.ctypes.data_as(ctypes.POINTER(ctypes.c_double)), b.ctypes.data_as(ctypes.POINTER(ctypes.c_double)), cap)
        if n >= 0:
            return a[:n].copy(), b[:n].copy()
        cap = -n + 16


def source_is_pinned():
    return source_sha() == PINNED_SHA


if __name__ == "__main__":
    so, sha = build()
    print("zsteps shim:", so, "source sha256", sha, "pinned" if sha == PINNED_SHA else "MODIFIED")
