// extern "C" driver around the working-tree zsteps.cpp (path given with -DZSTEPS_SOURCE=...).
// pybind11's overload resolution picks the `double` instantiation for numpy scalars, so that is what is exported.
#include ZSTEPS_SOURCE

extern "C" int zsteps_double(double z, double sinThetView, double RadE, double zMaxZ, double zmax, double dL,
                             double pi, double *zsave, double *delzs, int cap) {
  auto r = py_zsteps<double>(z, sinThetView, RadE, zMaxZ, zmax, dL, pi);
  int n = static_cast<int>(r.first.size());
  if (n > cap) return -n;
  std::memcpy(zsave, r.first.data(), n * sizeof(double));
  std::memcpy(delzs, r.second.data(), n * sizeof(double));
  return n;
}
