// Minimal stand-in for the four pybind11 names src/zsteps.cpp uses (pybind11 itself is not installed in this image).
// It lets the CURRENT working-tree source be compiled with g++ and driven through an extern "C" entry point.
#pragma once
#include <cstddef>
#include <cstring>
#include <memory>
#include <string>
#include <vector>

namespace pybind11 {

struct buffer_info {
  void *ptr;
};

template <typename T> class array_t {
public:
  array_t() : store_(std::make_shared<std::vector<T>>()) {}
  explicit array_t(std::size_t n) : store_(std::make_shared<std::vector<T>>(n)) {}
  buffer_info request() { return buffer_info{static_cast<void *>(store_->data())}; }
  std::size_t size() const { return store_->size(); }
  const T *data() const { return store_->data(); }

private:
  std::shared_ptr<std::vector<T>> store_;
};

class module_ {
public:
  std::string &doc() { return doc_; }
  template <typename F, typename... Extra> module_ &def(const char *, F &&, const Extra &...) { return *this; }

private:
  std::string doc_;
};

} // namespace pybind11

#define PYBIND11_MODULE(name, variable) static void pybind11_shim_init_##name(pybind11::module_ &variable)
