#!/bin/bash
# Offline setup: nothing to install. Verifies the interpreter and the editable install, and
# pre-builds the zsteps shim from /repo's working tree (checks rebuild it themselves when stale).
set -e
cd "$(dirname "${BASH_SOURCE[0]}")"
/venv/bin/python -c "import nuspacesim, numpy, scipy, astropy, dask, h5py; print('nuspacesim from', nuspacesim.__file__)"
mkdir -p evidence replays build
if [ -f nssmc/zsteps_shim/build.py ]; then /venv/bin/python nssmc/zsteps_shim/build.py || true; fi
echo setup ok
